#!/bin/bash
# usage: tools/mutant.sh <patch> <prop> [budget_s] [tier]
# Applies the patch to a scratch copy of /repo (never to /repo itself), runs the check against it, removes the copy.
set -u
patch=$(realpath "$1"); prop=$2; budget=${3:-20}; tier=${4:-quick}
d=$(mktemp -d /var/tmp/mut.XXXXXX)
trap 'rm -rf "$d"' EXIT
rsync -a --exclude .git /repo/ "$d/repo/"
( cd "$d/repo" && patch -p1 -s < "$patch" ) || { echo "PATCH FAILED"; exit 3; }
cd "$(dirname "$0")/.."
VERIF_REPO="$d/repo" VERIF_BUDGET_S=$budget VERIF_REPLAY_DIR="$d/replays" ./bin/verif check "$prop" --tier "$tier" 2>&1 | cut -c1-600 | grep -v '^    ' | head -${LINES_MAX:-12}
echo "exit=${PIPESTATUS[0]}"
