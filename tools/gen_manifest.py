#!/usr/bin/env python3
"""Generates /verif/MANIFEST.json from the table below (keeps the manifest valid at all times)."""
import json, os, sys

HERE = os.path.dirname(os.path.dirname(os.path.abspath(__file__)))
SETUP = ("GOFLAGS=-mod=mod GOPROXY=off GOSUMDB=off GOTOOLCHAIN=local "
         "/opt/veriftools/go1.26.8/bin/go build -o bin/verif ./cmd/verif")

TECH = "deterministic simulation (seeded token scheduler on testing/synctest over AST-instrumented real code) + "

CHECKS = {
 "C01": dict(level="exploration",
   text="Seeded search over client operation histories, store stacks and thread schedules; every recorded concurrent history is checked for linearizability against a sequential store model (porcupine), plus error-predicate totality on every failed call. Sampling, not proof: the right level for a property quantified over all schedules and histories of real code.",
   note="Trusted: the simulator (simrt) and the instrumenter's semantics-preserving rewrite; the sequential model written from the property statement; porcupine v1.3.0. Interleavings at sync points and sampled function-entry preemption points only. Remote (gRPC) leg is covered under C11.",
   technique=TECH+"porcupine linearizability check of recorded histories against a sequential reference model",
   ref="DESIGN.md §7 C01"),
 "C02": dict(level="exploration",
   text="Seeded search over write histories, history-ring configurations, watcher start points and consumer speeds under controlled schedules; every watcher's stream is compared event by event with the totally ordered commit log taken at the store's backing-store seam (exact snapshot + exact contiguous continuation for some establishment point inside the Watch call), plus black-box chain/replay/exactly-once oracles without the tap, and a lag-accounted oracle for spurious or missing Errored events; in a quarter of the tapped cases some backing-store writes are rejected and must stay invisible to the state and to every watcher.",
   note="Trusted: simrt + instrumenter; the commit tap (backing-store seam is called under the collection lock in commit order - cross-checked by every kind watcher agreeing with it). Sampling only.",
   technique=TECH+"exact comparison of each watch stream with the commit-tap log (reference change-log model) and lag-accounted overrun oracle",
   ref="DESIGN.md §7 C02"),
 "C03": dict(level="exploration",
   text="Seeded search over interleavings of blocking lifecycle helpers (TeardownAndDestroy, WatchFor, ContextWithTeardown) with actors adding/removing finalizers, tearing down, destroying and re-creating the same resource; safety oracles over the commit log (no destroy with finalizers; success only after a destroy; WatchFor returns the first satisfying state for some establishment point; context cancelled iff a teardown/destroy/absence occurred) and no-missed-wake-up oracles evaluated at true quiescence. Runs go through the direct state or the simulated gRPC leg (also against an old server without the Teardown RPCs, which exercises the client-side fallbacks); actor calls may be issued right after a named commit (teardown, finalizers emptied/added, destroyed, created) instead of at a random time.",
   note="Trusted: simrt + instrumenter; commit tap; reference evaluator of WatchFor conditions written from the documentation. Teardown's ready flag is checked in C04's run. Sampling only.",
   technique=TECH+"commit-log safety invariants and quiescence-time liveness oracles for blocked helpers",
   ref="DESIGN.md §7 C03"),
 "C04": dict(level="exploration",
   text="Seeded search over concurrent UpdateWithConflicts / Modify / AddFinalizer / RemoveFinalizer / Teardown calls (state.State, owned.State, pkg/safe) with matching and mismatching owner/phase options and an adversary destroying/re-creating the resource (at random times or right after a named commit); each call is matched against the commits its task made inside its call window: success = exactly one commit equal to the call's mutation applied to the predecessor value (or a justified no-op), error = no commit and a class justified by some state during the call.",
   note="Trusted: simrt + instrumenter; commit tap with task attribution. One open known finding (ABA across destroy/re-create at equal versions) is reported as KNOWN-FINDING, not as a violation. Sampling only.",
   technique=TECH+"per-call attribution of commits in the tap log against a mutation model (token conservation)",
   ref="DESIGN.md §7 C04"),
 "C12": dict(level="exploration",
   text="Seeded search over histories and history-ring configurations; at quiescence a watch is resumed from EVERY bookmark of a reference stream and must be accepted inside the guaranteed window and deliver the exact continuation (each event again carrying the right bookmark), crash-and-resume watchers run while writes continue and must concatenate to the log, forged bookmarks (random, truncated, extended, cookie bit-flips, arbitrary positions, minted by another OS process) must be rejected with the invalid-bookmark class or yield an exact suffix, and tail requests must deliver a contiguous suffix of the right length. A label/id-filtered reference watcher runs alongside: its stream must be the filtered log (moves into/out of the selection as Created/Destroyed) with the producing commit's bookmark on every event, filtered watches are resumed from every one of its bookmarks and filtered resumers crash and resume too.",
   note="Trusted: simrt + instrumenter; commit tap; the reference stream is itself checked against the tap. The 'other process incarnation' bookmark comes from a real child process of the worker. Sampling only.",
   technique=TECH+"resume-from-every-bookmark differential against the commit-tap log, forged-bookmark fault injection",
   ref="DESIGN.md §7 C12"),
 "C05": dict(level="exploration",
   text="Seeded search over write histories, event batchings, delivery delays, controller busy times and registration times under controlled schedules (including starving the runtime's dedup/delivery goroutines and permuting map iteration); at every quiescent point (true quiescence: no runnable task, no timer within 10 virtual minutes) each probe controller's last observation of each declared input must equal the store, destroy-ready inputs must have been observed in that state, every pre-existing or changed queue primary must have been reconciled with current content, and mapped changes must have reached every primary the mapper names. Includes UpdateInputs (added and re-declared inputs), overlapping by-kind and by-id inputs of different kinds on one type, crowds of controllers on one kind, a state that coalesces aggregated watch batches, and injected List failures at the state seam.",
   note="Trusted: simrt + instrumenter; probe controllers are harness code reading through the runtime API; quiescence horizon 10 virtual minutes. Sampling only.",
   technique=TECH+"quiescence-point convergence oracle (last observation == store) with starvation and state-fault injection",
   ref="DESIGN.md §7 C05"),
 "C06": dict(level="exploration",
   text="Seeded search over external operation histories on inputs and outputs, transform durations, finite scripts of transient transform/finalizer-removal failures (error, requeue, requeue-with-error, SkipReconcileTag - after which an existing output must be left untouched) and schedules, actor operations placed at random times or right after a named commit (output torn down / created / destroyed, input torn down, controller finalizer released), against the REAL transform.Controller / qtransform.QController (all option combinations) and destroy.Controller; at quiescence after the last fault the owned outputs must be exactly the images of the running-equivalent mapped inputs with latest content, no orphan or stale output unless held by a foreign finalizer, finalizers released once outputs are gone; a system that never goes quiet is reported as non-convergence with the controllers' error log.",
   note="Trusted: simrt + instrumenter; image function and 'running-equivalent' rule written from the option documentation; transform callbacks are harness code. Three genuine defects found here were repaired in /repo (see known_findings.json). Sampling only.",
   technique=TECH+"quiescence-time convergence oracle against a reference image of the inputs, with transient fault scripts",
   ref="DESIGN.md §7 C06"),
 "C07": dict(level="exploration",
   text="Same world as C06 restricted to configurations with input finalizers plus the real cleanup.Controller; the finalizer-ordering invariants (finalizer on the input before the output first exists and until after it is destroyed; outputs destroyed only after tearing down with no finalizers; cleanup controller releases only after, for each of its handlers, an instant since the teardown without that handler's dependents; no input destroyed while a derived output exists) are evaluated on EVERY prefix of the totally ordered commit log.",
   note="Trusted: simrt + instrumenter; commit tap. Dependents created by third parties after the teardown began are not counted against the cleanup handler. Six genuine defects in this area (D6, D7, D14, D15, D16 and C06's D5) were repaired in /repo, three of them found only at budgets well above the quick tier. Sampling only.",
   technique=TECH+"safety invariants checked on every prefix of the commit-tap log",
   ref="DESIGN.md §7 C07"),
 "C09": dict(level="exploration",
   text="Seeded search over interleavings of Put / Get / Release / Requeue(after) and the virtual clock on the REAL internal reconcile queue (reached through an overlaid build-tag facade), with history oracles for per-key exclusion, coalescing to the latest value, no lost notification, honoured requeue-after unless a fresh notification arrived (and no delay of a fresh notification by a pending backoff), and Len() = pending + held-back; plus the real queue runtime with a probe controller following scripted outcomes (ok, error, requeue, requeue-with-error, skip, panic): reconciles take a virtual duration, failed items are retried, a requested requeue delay is never cut short (measured from the return of the reconcile), and retry delays after >=5 consecutive failures exceed every first-failure delay of the same run (growth and reset-on-success stated relative to delays observed in the run).",
   note="Trusted: simrt + instrumenter; the facade file is overlaid at build time (add-only, nothing committed to /repo). The hand-over instant of an item is only known to lie between the worker's wait and get records; the oracles use only what is certain under that uncertainty. cenkalti/backoff jitter is real (seeded per run). Sampling only.",
   technique=TECH+"history oracles over recorded queue operations against a reference notion of pending/held items; scripted outcome fault sequences for backoff",
   ref="DESIGN.md §7 C09"),
 "C10": dict(level="fault_enumeration",
   text="For every sampled operation history and marshaler stack (protobuf, zstd on both sides of the size threshold, AES-GCM, both stackings) over the real bolt backing store on a real bbolt file: one execution snapshots the db file before and after EVERY backing-store call and at EVERY bbolt failpoint inside every commit; each snapshot is reopened by a fresh stack and must equal, field by field, the in-memory contents before or after the operation in flight; then EVERY (error point, occurrence) - store call failing before/after applying, bbolt lackOfDiskSpace, beforeWriteMetaError, resizeFileError, mapError - is injected in its own execution (operation must fail, memory and watcher must not see it, disk must equal memory afterwards); plus Load failures at several record indices (retried without loss or duplication), wrong key and tampered records under encryption, post-restart operations on the restarted and the surviving state, and concurrent clients fighting over one resource (final disk == memory).",
   note="Trusted: simrt + instrumenter; bbolt runs for real on tmpfs scratch files, its gofail markers turned into hook calls in a scratch copy of the module (nothing committed to /repo); a managed bbolt transaction is one atomic scheduler step. Crash model = PROCESS crash (page cache survives): lost, torn or reordered unsynced writes (power loss) are not modelled because bbolt exposes no write/fsync seam. In the quick tier the error-injection enumeration is sampled down to 12 per history when larger (probes say which); the thorough tier runs all.",
   technique=TECH+"per-history enumeration of crash snapshots at every store call and bbolt failpoint and of error injections, reopened state compared with the in-memory state (model)",
   ref="DESIGN.md §7 C10"),
 "C11": dict(level="exploration",
   text="Seeded differential execution: the same operation sequence (all options: owners, expected phases, stale versions, label/id selectors, bookmarks, tails, aggregated, skip-unmarshal, native Teardown RPCs and an old server answering Unimplemented) is applied step by step to a direct state and to client adapter -> simulated transport -> server -> state; results, error classes, written-back metadata (checked against the remote store) and, at quiescence, the watch event sequences must agree, and the sticky fallback must stop calling the missing RPC. A table of hand-crafted malformed wire requests is fired at the server handlers: a handler panic is a server crash.",
   note="Trusted: simrt + instrumenter; the in-process transport replaces gRPC/HTTP2 (it marshals/unmarshals every message with vtproto and maps handler errors through status as grpc-go does). Tombstones travel as resources with empty spec - treated as equal. Commit times are compared only inside the remote world. Two genuine server crashes found here were repaired in /repo. Sampling of sequences; the malformed-request table is fixed, not exhaustive.",
   technique=TECH+"differential execution direct vs. simulated gRPC leg, malformed-request fault injection at the wire interface",
   ref="DESIGN.md §7 C11"),
 "C13": dict(level="fault_enumeration",
   text="For every sampled history (writers keep writing to the server during outages; one client-side watch of any flavour) the fault-free run is followed by the enumeration of every stream message index as reset point, alone, followed by 1-3 failed re-establishments (at Watch() or at first Recv) and by a second reset of the resumed stream, plus establishment failures, watches started with tail events or carrying label/id selectors (a resumed watch must keep the selector and continue from its bookmark, not from the tail again), retries-disabled and sampled multi-reset / long-outage scripts. Each sub-run's client stream must be the server's commit log from its establishment point without loss, duplication or reordering, or a gap-free prefix ending in exactly one Errored that has a permitted cause (no bookmark seen, bookmark expired, retries disabled or exhausted).",
   note="Trusted: simrt + instrumenter; commit tap on the server store; transport stub as in C11; cenkalti/backoff runs for real on the virtual clock (15-minute retry budget costs microseconds). In the quick tier the enumeration is sampled down to 30 scripts per history when larger (reported as enumeration-sampled vs enumeration-complete probes); the thorough tier runs all.",
   technique=TECH+"per-history enumeration of stream-reset positions and re-establishment failures on the simulated transport, stream compared with the server's commit-tap log",
   ref="DESIGN.md §7 C13"),
 "C14": dict(level="exploration",
   text="Seeded search over random selectors (all operators, inversion, empty value lists, non-numeric operands, unit suffixes, missing labels, AND within / OR across queries, id regexps) and label-churning write histories under controlled schedules; at quiescence List(selector) at the direct state, through the simulated gRPC leg and from the runtime cache must equal a brute-force filter of the unfiltered List through an INDEPENDENT reference evaluator written from the documented semantics, and every filtered kind watch (single/aggregated, bootstrap or not, direct or remote) must be, event by event with bookmarks, the change log of the filtered set derived from the commit log (moves in/out as Created/Destroyed).",
   note="Trusted: simrt + instrumenter; the reference evaluator (selector.go) is independent code but written by the same author as the reading of the documentation; commit tap; transport stub as in C11. The pure selector algebra is input-quantified: it is exercised through the histories it filters, not fuzzed exhaustively.",
   technique=TECH+"differential against an independent reference selector evaluator over lists at four evaluation sites and over filtered watch streams derived from the commit-tap log",
   ref="DESIGN.md §7 C14"),
 "C15": dict(level="exploration",
   text="Seeded search over write histories before, during and after runtime start, aggregated-watch batchings (a harness state wrapper coalesces batches over a random window), reader timings and schedules, with type A served from the runtime read cache: every cached Get/List (with label/id selectors) of external readers - started before the runtime so that they block across the bootstrap - must equal the selector-filtered store contents at SOME commit position between runtime start and the read's return (no partial bootstrap view, no state that never existed), a reader's successive views never go back, at quiescence cached == uncached for every selector and every probe controller's last cached observation is current (a notification never overtakes its cache update), and teardown-bound contexts obtained through the cache are cancelled iff the resource was torn down, removed or absent - also when a sibling context for the same resource, under its own parent, went away earlier.",
   note="Trusted: simrt + instrumenter; commit tap; reference selector evaluator; the batch-coalescing wrapper is harness code producing legal re-batchings. The white-box in-package cache sequence test mentioned in DESIGN was not built (the black-box oracle proved sufficient for the seeded changes). Sampling only.",
   technique=TECH+"each cached read matched against the set of historical store states from the commit-tap log; quiescence-time cached/uncached differential",
   ref="DESIGN.md §7 C15"),
 "C16": dict(level="exploration",
   text="Seeded search over finite fault scripts and schedules: controllers erroring or panicking at Run start, at the first reconcile, after one healthy cycle or between StartTrackingOutputs and CleanupOutputs; run hooks failing at once or after two healthy virtual minutes; pkg/task tasks failing and panicking; queue items following outcome scripts; a tiny history that makes the runtime's own watch overrun; cancellation at a random virtual instant while controllers write. Oracles: Run keeps running under controller faults, every failed unit is restarted and (controllers) reconciles again, healthy controllers stay current at every quiescent point while others fail, restart delays after >=5 consecutive failures exceed every first-failure delay of the same run and reset after a healthy cycle, the whole system converges after the last fault; on a watch failure Run returns that error and nothing reconciles afterwards, while as long as Run keeps running after a burst no notification may have been lost silently, and a cancellation racing the watch failure must still let Run return; after cancellation Run returns, the task table is empty (no goroutine, watch or hook left) and the commit tap shows no write by a runtime task after the return.",
   note="Trusted: simrt + instrumenter; controller/hook/task bodies are harness code following the scripts; backoff jitter is real (seeded). Backoff oracles compare delays observed in the same run, not library constants. Sampling only.",
   technique=TECH+"scripted fault sequences (error/panic at chosen invocations, watch overrun, cancellation instant) with containment, backoff-shape and clean-shutdown oracles",
   ref="DESIGN.md §7 C16"),
 "C17": dict(level="exploration",
   text="Seeded search over histories of RegisterController / RegisterQController / UpdateInputs calls with valid, duplicate-name, conflicting-output, duplicate-input and kind-invalid declarations, before and after the runtime is started, while a background writer keeps events flowing (UpdateInputs is applied by the controller itself, concurrently with event delivery); after every step acceptance/rejection and the exported dependency graph are compared with a reference model written from the property statement (rejected calls have no effect), a panic of a runtime task is a crash, and after the history every controller's wake-up count must grow exactly for writes matching one of its accepted inputs by kind or by id.",
   note="Trusted: simrt + instrumenter; 70-line reference model of the dependency database; probe controllers are harness code. Four genuine defects found here were repaired in /repo. Sampling only.",
   technique=TECH+"step-by-step comparison with a reference model of the dependency database, notification-exactness oracle at quiescence",
   ref="DESIGN.md §7 C17"),
 "C08": dict(level="exploration",
   text="Seeded search over attacker controllers of both flavours with random input/output declarations (3 types x {by kind, 2 ids} x all six input kinds, exclusive/shared outputs), run by the real runtime with a random subset of kinds served from the cache, each firing up to 30 random runtime-API calls (Get/List/ContextWithTeardown and the uncached variants, Create/Update/Modify/Teardown/Destroy with and without explicit-owner and no-owner options, Add/RemoveFinalizer) at resources owned by nobody, by itself, by the other attacker and by a third party (some tearing down, some with finalizers). Every call is judged by an access model written from the property statement: calls outside the declarations must fail and leave no commit attributed to the calling task in the commit tap, calls inside them must not be refused by the access check, a resource owned by someone else never changes unless its owner is named explicitly, created resources carry the controller name unless ownership was opted out, and a rejected call never commits.",
   note="Trusted: simrt + instrumenter; 40-line access model (mayRead/mayFinalize/isOutputOf); attacker bodies are harness code. Largely program-quantified: the schedule dimension matters through the cache and two attackers sharing the store; kept because the multi-party, commit-attribution part is decided by the simulated workload. Sampling only; coverage cells op x declared x owner x flavour x cached are counted in the evidence.",
   technique=TECH+"attacker workload against an access reference model with per-call commit attribution from the tap",
   ref="DESIGN.md §7 C08"),
 "C20": dict(level="exploration",
   text="Seeded search over sequences of up to 14 operations Initialize / AddKeySlot / DeleteKeySlot / GetMasterKey / MarshalBinary snapshots / UnmarshalBinary of any earlier snapshot into the same or a fresh storage, over 4 slot ids and 5 x25519 key pairs with right, wrong and dead credentials, compared operation by operation with a live-slot model and audited after every operation (every live slot with its key recovers the original master key; dead slots and wrong keys recover nothing; last slot undeletable; existing slot not overwritten; second initialisation refused). Fault kind: up to 4 single-field corruptions of the serialized form per run (encrypted blob flipped / truncated / extended / swapped / re-encrypted to another key / emptied; slot added as copy / attacker-encrypted / random / empty, or removed; integrity tag flipped / truncated / extended / emptied), each followed by 1-3 retrievals (get / add-slot / delete-slot through live slots with their right keys) that must all fail, after which no live slot may answer and a planted slot must not answer its planter. One generated operation lets two tasks add the same new slot id at the same time: exactly one may report success and the slot must belong to the winner.",
   note="Nearly degenerate simulation: no clock, and a schedule dimension only in the concurrent-add operation (one mutex around otherwise pure code); the fault dimension is stored-form corruption between marshal and unmarshal. Real x25519/AES-GCM via gopenpgp; the master key and all choices derive from the seed, ciphertext randomness (crypto/rand) does not influence outcomes. Corruption of slot ids (rename), algorithm and storage-version fields are outside the statement and not judged. Two genuine defects found here were repaired in /repo. Sampling only.",
   technique="model-based operation/fault sequencing under the simulator harness (seeded generation, minimisation, replay): live-slot reference model + stored-form corruption injection",
   ref="DESIGN.md §7 C20"),
 "C19": dict(level="exploration",
   text="Seeded search over client operation sequences at three handles (direct state, runtime cache incl. filtered cached lists, simulated gRPC leg) in which clients keep every object they passed to Create/Update/Modify or got from Get/List/UpdateWithConflicts/Modify plus Metadata.Copy() copies, interleaved with later 'scribbles' of held objects through the public API (labels Set/Delete/Do, annotations, finalizers Add/Remove/Set, phase, version, owner, spec value and token slices in place) on resources carrying three unsorted finalizers, labels and annotations; after EVERY operation the store must equal the replay of the commit log, every other held object must still equal what it was when obtained (order-sensitive), a watcher's kept event objects must be unchanged, and cached/remote views at quiescence must equal the committed state.",
   note="Trusted: simrt + instrumenter; commit tap snapshots are value copies taken at commit time. Largely program/input-quantified: the schedule dimension matters only through several client tasks sharing storage lineage; kept because the stored-state-aliasing dimension is decided by the simulated multi-client workload with a reference replay.",
   technique=TECH+"aliasing detection: held-object invariance and store == commit-log replay after every operation under seeded scribble faults",
   ref="DESIGN.md §7 C19"),
}

NOT_YET = "check not built yet in this round (planned in DESIGN.md §7); no claim is made"
NA = {
 "C18": "pure input-quantified codec property: no schedule, clock, I/O fault or second party for a simulator to control (DESIGN.md §8); the store-marshaler/crash and tamper facets are exercised under C10",
}

def main():
    props = [json.loads(l)["id"] for l in open(os.path.join(HERE, "properties.jsonl"))]
    checks = []
    na = []
    for p in props:
        if p in CHECKS:
            c = CHECKS[p]
            checks.append({
                "property_id": p,
                "quick_cmd": f"./bin/verif check {p} --tier quick",
                "thorough_cmd": f"./bin/verif check {p} --tier thorough",
                "evidence_file": f"/verif/evidence/{p}.json",
                "replay_cmd_template": "./bin/verif replay {path}",
                "engine": "simrt",
                "level_claimed": {"category": c["level"], "text": c["text"], "design_ref": c["ref"]},
                "level_note": c["note"],
                "technique": c["technique"],
            })
        else:
            na.append({"property_id": p, "reason": NA.get(p, NOT_YET)})
    m = {
        "version": 1,
        "setup_cmd": SETUP,
        "hooks": {
            "guard": "verif",
            "enable": "no source hooks are committed to /repo: ./bin/verif rewrites copies of /repo's current sources into /var/tmp/verif.* and builds them with `go test -c -tags verif -overlay <overlay.json> -modfile <scratch go.mod>` (DESIGN.md §3)",
            "baseline_off_cmd": "for m in $(cat /w/out/gomods.txt); do MF=$(cd /repo/$m && . /w/out/goenv.sh && gomodflag); (cd /repo/$m && go test $MF -json -vet=off -count=1 -timeout 25m ./...); done",
            "source_commits": [],
            "add_only": True,
        },
        "engines": [{
            "name": "simrt",
            "path": "/verif/sim/simrt, /verif/internal/instr, /verif/sim/worlds, /verif/cmd/verif",
            "serves_properties": [c["property_id"] for c in checks],
            "kind_free_text": "deterministic simulation with fault injection: token-passing seeded scheduler on testing/synctest (fake clock, quiescence), AST instrumenter that puts the real repository code under the scheduler via go build overlays, per-property worlds with reference-model oracles, minimisation and exact replay",
        }],
        "checks": checks,
        "not_applicable": na,
        "notes": "See DESIGN.md. Exit codes: 0 held, 1 VIOLATION (replay file confirmed twice in fresh processes), 2 build/harness/watchdog trouble (never a VIOLATION). VERIF_SEED selects the seed family; VERIF_BUDGET_S overrides the per-tier search budget.",
    }
    json.dump(m, open(os.path.join(HERE, "MANIFEST.json"), "w"), indent=1)
    print("MANIFEST.json:", len(checks), "checks,", len(na), "not applicable")

if __name__ == "__main__":
    main()
