#!/usr/bin/env python3
"""Generates /verif/MANIFEST.json from the table below (keeps the manifest valid at all times)."""
import json, os, sys

HERE = os.path.dirname(os.path.dirname(os.path.abspath(__file__)))
SETUP = ("GOFLAGS=-mod=mod GOPROXY=off GOSUMDB=off GOTOOLCHAIN=local "
         "/opt/veriftools/go1.26.8/bin/go build -o bin/verif ./cmd/verif")

TECH = "deterministic simulation (seeded token scheduler on testing/synctest over AST-instrumented real code) + "

CHECKS = {
 "C01": dict(level="exploration",
   text="Seeded search over client operation histories, store stacks and thread schedules; every recorded concurrent history is checked for linearizability against a sequential store model (porcupine), plus error-predicate totality on every failed call. Sampling, not proof: the right level for a property quantified over all schedules and histories of real code.",
   note="Trusted: the simulator (simrt) and the instrumenter's semantics-preserving rewrite; the sequential model written from the property statement; porcupine v1.3.0. Interleavings at sync points and sampled function-entry preemption points only. Remote (gRPC) leg is covered under C11.",
   technique=TECH+"porcupine linearizability check of recorded histories against a sequential reference model",
   ref="DESIGN.md §7 C01"),
}

NOT_YET = "check not built yet in this round (planned in DESIGN.md §7); no claim is made"
NA = {
 "C18": "pure input-quantified codec property: no schedule, clock, I/O fault or second party for a simulator to control (DESIGN.md §8); the store-marshaler/crash and tamper facets are exercised under C10",
}

def main():
    props = [json.loads(l)["id"] for l in open(os.path.join(HERE, "properties.jsonl"))]
    checks = []
    na = []
    for p in props:
        if p in CHECKS:
            c = CHECKS[p]
            checks.append({
                "property_id": p,
                "quick_cmd": f"./bin/verif check {p} --tier quick",
                "thorough_cmd": f"./bin/verif check {p} --tier thorough",
                "evidence_file": f"/verif/evidence/{p}.json",
                "replay_cmd_template": "./bin/verif replay {path}",
                "engine": "simrt",
                "level_claimed": {"category": c["level"], "text": c["text"], "design_ref": c["ref"]},
                "level_note": c["note"],
                "technique": c["technique"],
            })
        else:
            na.append({"property_id": p, "reason": NA.get(p, NOT_YET)})
    m = {
        "version": 1,
        "setup_cmd": SETUP,
        "hooks": {
            "guard": "verif",
            "enable": "no source hooks are committed to /repo: ./bin/verif rewrites copies of /repo's current sources into /var/tmp/verif.* and builds them with `go test -c -tags verif -overlay <overlay.json> -modfile <scratch go.mod>` (DESIGN.md §3)",
            "baseline_off_cmd": "for m in $(cat /w/out/gomods.txt); do MF=$(cd /repo/$m && . /w/out/goenv.sh && gomodflag); (cd /repo/$m && go test $MF -json -vet=off -count=1 -timeout 25m ./...); done",
            "source_commits": [],
            "add_only": True,
        },
        "engines": [{
            "name": "simrt",
            "path": "/verif/sim/simrt, /verif/internal/instr, /verif/sim/worlds, /verif/cmd/verif",
            "serves_properties": [c["property_id"] for c in checks],
            "kind_free_text": "deterministic simulation with fault injection: token-passing seeded scheduler on testing/synctest (fake clock, quiescence), AST instrumenter that puts the real repository code under the scheduler via go build overlays, per-property worlds with reference-model oracles, minimisation and exact replay",
        }],
        "checks": checks,
        "not_applicable": na,
        "notes": "See DESIGN.md. Exit codes: 0 held, 1 VIOLATION (replay file confirmed twice in fresh processes), 2 build/harness/watchdog trouble (never a VIOLATION). VERIF_SEED selects the seed family; VERIF_BUDGET_S overrides the per-tier search budget.",
    }
    json.dump(m, open(os.path.join(HERE, "MANIFEST.json"), "w"), indent=1)
    print("MANIFEST.json:", len(checks), "checks,", len(na), "not applicable")

if __name__ == "__main__":
    main()
