#!/bin/bash
# usage: tools/rerun_seeded.sh [seeded-id ...]
# Re-runs our check for every filed seeded change (seeded/<id>/patch.diff) against a scratch copy of /repo's current
# tree with the change applied, refreshes the "our_check" field of seeded/<id>/meta.json and rewrites
# seeded/CATCH.tsv (seeded-id, property, caught-by-own-check, oracle signature, also-caught-by).
# Extra checks to try for a change: seeded/<id>/also_try (one property id per line).
set -u
cd "$(dirname "$0")/.."
ids=("$@")
if [ ${#ids[@]} -eq 0 ]; then ids=($(ls seeded | grep -E '^C[0-9]+-m[0-9]+$' | sort)); fi
for sid in "${ids[@]}"; do
  prop=${sid%%-*}
  [ -f seeded/$sid/patch.diff ] || continue
  res=$(LINES_MAX=40 tools/mutant.sh seeded/$sid/patch.diff $prop ${BUDGET:-30} 2>&1)
  caught=$(echo "$res" | grep -c '^VIOLATION')
  rc=$(echo "$res" | grep -oE 'exit=[0-9]+' | tail -1)
  sig=$(echo "$res" | grep -oE 'signature=[^ ]+' | sort | uniq -c | sort -rn | awk '{print $2}' | sed 's/signature=//' | head -3 | tr '\n' ',' | sed 's/,$//')
  also=""
  if [ -f seeded/$sid/also_try ]; then
    for p2 in $(cat seeded/$sid/also_try); do
      r2=$(LINES_MAX=40 tools/mutant.sh seeded/$sid/patch.diff $p2 ${BUDGET:-30} 2>&1)
      if echo "$r2" | grep -q '^VIOLATION'; then also="$also$p2 "; fi
    done
  fi
  python3 - "$sid" "$prop" "$caught" "$rc" "$sig" "$also" <<'PY'
import json, sys, os
sid, prop, caught, rc, sig, also = sys.argv[1:7]
p = f"seeded/{sid}/meta.json"
m = json.load(open(p)) if os.path.exists(p) else {"property": prop, "seeded_id": sid}
m["our_check"] = {"cmd": f"tools/mutant.sh seeded/{sid}/patch.diff {prop} 30", "violations_reported": int(caught), "exit": rc,
                  "signatures": sig, "also_caught_by": also.split()}
json.dump(m, open(p, "w"), indent=1)
PY
  printf '%s\t%s\t%s\t%s\t%s\n' "$sid" "$prop" "$([ "$caught" -gt 0 ] && echo caught || echo MISSED)" "$sig" "$also" | tee -a seeded/CATCH.tsv.new
done
if [ $# -eq 0 ]; then mv seeded/CATCH.tsv.new seeded/CATCH.tsv; else cat seeded/CATCH.tsv.new >> seeded/CATCH.tsv; rm seeded/CATCH.tsv.new; fi
