#!/usr/bin/env python3
"""Renders seeded/CATCH.tsv into the table between the CATCH-TABLE markers of DESIGN.md."""
import os, re
HERE = os.path.dirname(os.path.dirname(os.path.abspath(__file__)))
rows = [l.rstrip("\n").split("\t") for l in open(os.path.join(HERE, "seeded/CATCH.tsv")) if l.strip()]
rows.sort(key=lambda r: r[0])
out = ["| seeded change | what was broken | own check | oracle that fired | also caught by |", "|---|---|---|---|---|"]
for r in rows:
    r += [""] * (5 - len(r))
    sid, prop, res, sig, also = r[:5]
    d = os.path.join(HERE, "seeded", sid, "description.md")
    title = open(d).readline().strip().lstrip("# ").strip() if os.path.exists(d) else ""
    title = re.sub(r"^m\d\s*[-—:]+\s*", "", title)[:150].replace("|", "/")
    out.append(f"| {sid} | {title} | {res} | {sig.replace('|','/')[:90]} | {also.strip()} |")
p = os.path.join(HERE, "DESIGN.md")
s = open(p).read()
s = re.sub(r"<!-- CATCH-TABLE-BEGIN -->.*?<!-- CATCH-TABLE-END -->", "<!-- CATCH-TABLE-BEGIN -->\n" + "\n".join(out) + "\n<!-- CATCH-TABLE-END -->", s, flags=re.S)
open(p, "w").write(s)
print(len(rows), "rows")
