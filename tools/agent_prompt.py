#!/usr/bin/env python3
"""Prints the prompt for a mutation sub-agent: property text + its scratch worktree only."""
import json, sys
pid = sys.argv[1]
wt = sys.argv[2]
for l in open('/verif/properties.jsonl'):
    p = json.loads(l)
    if p['id'] == pid:
        break
print(f"""You are helping to evaluate a verification effort for the Go library cosi-project/runtime (a resource-state store with watch streams and a controller runtime). Your job: invent realistic *bugs*.

You have your own scratch git worktree of the repository at {wt} (detached HEAD). Work ONLY inside that directory. Do not read or write anything under /verif or /repo. Do not look for any verification tooling; you are given only the property text below.

Property "{p['title']}":
{p['statement']}
(It must hold {p['quantifier']['text']}.)
Code areas involved (hints): {', '.join(p['anchors']['files'])}

Task: produce THREE different, independent changes to the library's non-test source code (each one a separate patch against the worktree's HEAD) such that each change
  1. still compiles (`go build ./...`) and still passes the ENTIRE existing test suite of the packages it touches and of packages depending on them (run at least `go test -vet=off -count=1 ./pkg/...`; it takes a few minutes; it must pass with your change applied) — do not edit existing tests;
  2. BREAKS the property above in a way that needs something specific to manifest — a particular interleaving of goroutines, a fault/crash/cancellation at a particular point, a multi-step sequence of operations, an unusual but legal input, or two cooperating sites that each look fine alone. Not something ordinary use would expose at once, and not a trivially obvious sabotage (no `panic("bug")`, no time-bombs keyed on magic strings, no randomness). Think of the kind of mistake a maintainer could plausibly make in a refactoring or an optimisation (narrowing a lock, reordering two steps, an off-by-one in a boundary, dropping a re-check, caching something, skipping a copy, swallowing an error, wrong comparison operator, ...);
  3. comes with a demonstration: a NEW Go test file (or small program) that FAILS (deterministically or with high probability within a bounded number of attempts) with the change applied and PASSES without it. The demonstration may use sleeps, many iterations, or goroutines to hit the window.
Make the three changes as different from each other as you can (different functions / different mechanisms / different facets of the property).

Environment: no network. Use `export GOFLAGS=-mod=mod GOPROXY=off` before go commands; the default `go` on PATH works for this repository. All dependencies are already in the module cache. Do not run `git commit`; produce patch files with `git diff`.

Deliverables, all inside {wt}/_seeded/ (create it):
  - m1.patch, m2.patch, m3.patch: `git diff` of ONLY the library change (not the demo test), each against clean HEAD (save each with `git diff > file`, then `git checkout -- .` before the next one so that they are independent; do NOT use `git stash` - the stash is shared between all worktrees of this repository and other people work in sibling worktrees);
  - m1_demo_test.go, m2_demo_test.go, m3_demo_test.go: the demonstration tests, each with a header comment saying in which package directory the file must be placed and the exact `go test` command to run it;
  - m1.md, m2.md, m3.md: 5-10 lines each: what the change is, which facet of the property it breaks, and what exactly is needed for it to manifest (interleaving / fault / sequence / input).
Before you finish: for each change, verify (a) suite passes with the change, (b) demo fails with the change, (c) demo passes on clean HEAD; then leave the worktree CLEAN (git checkout -- . ; remove the demo tests from the package dirs; only _seeded/ remains as untracked). If you cannot find three, deliver as many as you can and say so.
Your final message should list the deliverables and one line on each change.""")
