#!/bin/bash
# usage: tools/calibrate.sh [PROP...]   (run on an otherwise idle machine)
# Measures the case throughput of every check in both tiers with short time-bounded runs and writes budgets.json:
# the fixed number of cases per shard that the quick tier (about 40 s) and the thorough tier (about 600 s) run by default.
set -u
cd "$(dirname "$0")/.."
props=("$@")
[ ${#props[@]} -eq 0 ] && props=($(python3 -c "import json;print(' '.join(c['property_id'] for c in json.load(open('MANIFEST.json'))['checks']))"))
tmp=$(mktemp -d /var/tmp/calib.XXXXXX)
trap 'rm -rf "$tmp"' EXIT
for p in "${props[@]}"; do
  for tier in quick thorough; do
    VERIF_BUDGET_S=${CALIB_S:-30} VERIF_REPLAY_DIR=$tmp ./bin/verif check $p --tier $tier > $tmp/out.txt 2>&1 || { echo "calibration run of $p $tier failed:"; tail -5 $tmp/out.txt; exit 2; }
    python3 - "$p" "$tier" "$tmp/evidence/$p.json" "${CALIB_S:-30}" <<'PY'
import json, sys, os
p, tier, ev, secs = sys.argv[1], sys.argv[2], sys.argv[3], float(sys.argv[4])
e = json.load(open(ev))
per_shard_per_s = e["coverage"]["evaluations"] / 16.0 / secs
target = 40 if tier == "quick" else 600
n = int(per_shard_per_s * target * 0.9)
# two significant digits
mag = 10 ** max(0, len(str(n)) - 2)
n = max(1, n // mag * mag)
path = "budgets.json"
m = json.load(open(path)) if os.path.exists(path) else {}
m.setdefault(p, {})[tier] = n
json.dump(m, open(path, "w"), indent=1, sort_keys=True)
print(p, tier, "cases per shard:", n)
PY
  done
done
