#!/bin/bash
# usage: tools/confirm_seeded.sh <agent-worktree> <mN> <PROP> <seeded-id>
# Confirms a seeded change in a fresh scratch worktree of /repo: (a) builds and passes ./pkg/... with the change,
# (b) demo fails with the change, (c) demo passes without it. Then runs our check against it and files it under
# /verif/seeded/<seeded-id>/ with meta.json. The scratch worktree is removed afterwards.
set -u
wt=$1; m=$2; prop=$3; sid=$4
src=$wt/_seeded
export GOFLAGS=-mod=mod GOPROXY=off
scratch=/tmp/confirm-$sid
git -C /repo worktree remove --force $scratch 2>/dev/null
git -C /repo worktree add -q $scratch HEAD || exit 3
trap 'git -C /repo worktree remove --force '$scratch' 2>/dev/null' EXIT
demo=$src/${m}_demo_test.go
dir=$(grep -oE 'pkg/[A-Za-z0-9_/]+' $demo | head -1 | sed 's#/$##; s#/m[0-9]_demo_test$##; s#/[a-z0-9_]*_test$##')
run=$(grep -oE "\-run '?[^ ']+'?" $demo | head -1 | sed "s/-run //; s/'//g")
echo "demo dir=$dir run=$run"
cd $scratch
cp $demo $dir/zz_${m}_demo_test.go
clean_demo=$(go test -vet=off -count=1 -run "$run" ./$dir/ 2>&1 | tail -3); clean_rc=$?
git apply $src/$m.patch || { echo "APPLY FAILED"; exit 3; }
mut_demo=$(go test -vet=off -count=1 -run "$run" ./$dir/ 2>&1 | tail -5); 
echo "$mut_demo" | grep -q '^ok' && mut_rc=0 || mut_rc=1
rm $dir/zz_${m}_demo_test.go
go build ./... || { echo "BUILD FAILED"; exit 3; }
go test -vet=off -count=1 ./pkg/... > /tmp/suite-$sid.log 2>&1; suite_rc=$?
suite=$(grep -E '^(FAIL|--- FAIL|panic:)' /tmp/suite-$sid.log | head -10 | tr '"' "'")
if [ $suite_rc -ne 0 ]; then
  # the repository has timing-flaky tests (documented by the agents): one retry of the failing packages
  pk=$(grep -E '^FAIL\s' /tmp/suite-$sid.log | awk '{print $2}' | grep cosi | sed 's#github.com/cosi-project/runtime#.#' | sort -u | tr '\n' ' ')
  if [ -n "$pk" ] && go test -vet=off -count=1 $pk > /tmp/suite-$sid.retry.log 2>&1; then suite_rc=0; suite="(passed on retry of: $pk) $suite"; fi
fi
rm -f /tmp/suite-$sid.log /tmp/suite-$sid.retry.log
echo "clean demo: $(echo "$clean_demo" | tail -1)"
echo "mutant demo rc=$mut_rc: $(echo "$mut_demo" | tail -2 | tr '\n' ' ')"
echo "suite with change: rc=$suite_rc $suite"
cd /verif
mkdir -p seeded/$sid
cp $src/$m.patch seeded/$sid/patch.diff
cp $demo seeded/$sid/demo_test.go
cp $src/$m.md seeded/$sid/description.md
chk=$(tools/mutant.sh seeded/$sid/patch.diff $prop ${BUDGET:-30} 2>&1)
echo "$chk" | cut -c1-300 | head -6
caught=$(echo "$chk" | grep -c '^VIOLATION')
rc=$(echo "$chk" | grep -oE 'exit=[0-9]+' | tail -1)
python3 - <<PY
import json
json.dump({
 "property": "$prop",
 "seeded_id": "$sid",
 "needs": open("seeded/$sid/description.md").read()[:1500],
 "demo": {"dir": "$dir", "run": "$run", "passes_on_clean_head": $clean_rc == 0, "fails_with_change": $mut_rc != 0},
 "existing_suite_passes_with_change": $suite_rc == 0,
 "suite_output_if_failed": """$suite"""[:500],
 "our_check": {"cmd": "tools/mutant.sh seeded/$sid/patch.diff $prop ${BUDGET:-30}", "violations_reported": $caught, "exit": "$rc"},
}, open("seeded/$sid/meta.json","w"), indent=1)
PY
echo "== $sid caught=$caught $rc"
