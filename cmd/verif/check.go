package main

import (
	"bytes"
	"encoding/json"
	"fmt"
	"os"
	"os/exec"
	"path/filepath"
	"regexp"
	"runtime"
	"sort"
	"strconv"
	"strings"
	"sync"
	"time"
)

type violationRec struct {
	Seed      uint64 `json:"seed"`
	Oracle    string `json:"oracle"`
	Signature string `json:"signature"`
	Msg       string `json:"msg"`
	CaseFile  string `json:"case_file"`
}

type summary struct {
	Prop          string            `json:"prop"`
	Shard         int               `json:"shard"`
	Runs          int               `json:"runs"`
	Nontrivial    int               `json:"nontrivial"`
	Hashes        []uint64          `json:"hashes"`
	HashesCapped  bool              `json:"hashes_capped"`
	Steps         int64             `json:"steps"`
	Switches      int64             `json:"switches"`
	SimSeconds    float64           `json:"sim_seconds"`
	Quiescences   int               `json:"quiescences"`
	Probes        map[string]int    `json:"probes"`
	Faults        map[string]int    `json:"faults"`
	SwitchPairs   map[string]bool   `json:"switch_pairs"`
	Inconclusive  int               `json:"inconclusive"`
	Adoptions     int               `json:"adoptions"`
	Violations    []violationRec    `json:"violations"`
	HarnessErrors []string          `json:"harness_errors"`
	Samples       []json.RawMessage `json:"samples"`
	WallS         float64           `json:"wall_s"`
	MutexBlocks   int64             `json:"mutex_blocks"`
	SelectBlocks  int64             `json:"select_blocks"`
	Tasks         int               `json:"tasks"`
	Rule          string            `json:"rule"`
	Real          []string          `json:"real"`
	Stub          []string          `json:"stub"`
}

type knownFinding struct {
	Property  string `json:"property"`
	Status    string `json:"status"` // open | fixed
	Signature string `json:"signature"`
	What      string `json:"what"`
	Commit    string `json:"commit,omitempty"`
}

type propMeta struct {
	Level      string   `json:"level"`
	Rule       string   `json:"rule"`
	Real       []string `json:"real"`
	Stub       []string `json:"stub"`
	Assumption []string `json:"assumptions"`
}

func loadKnown() []knownFinding {
	if os.Getenv("VERIF_IGNORE_KNOWN") != "" {
		return nil // used once to produce the replay file of a finding
	}
	b, err := os.ReadFile(filepath.Join(verifDir(), "known_findings.json"))
	if err != nil {
		return nil
	}
	var k struct {
		Findings []knownFinding `json:"findings"`
	}
	if err := json.Unmarshal(b, &k); err != nil {
		fmt.Fprintln(os.Stderr, "known_findings.json:", err)
		os.Exit(2)
	}
	return k.Findings
}

func workerEnv(extra ...string) []string {
	env := os.Environ()
	env = append(env, "GODEBUG=randseednop=0", "GOMAXPROCS=1")
	return append(env, extra...)
}

func runWorkerCmd(bin string, run string, timeout time.Duration, extra ...string) (string, error) {
	cmd := exec.Command(bin, "-test.run", "^"+run+"$", "-test.cpu", "1", "-test.timeout", "0")
	cmd.Env = workerEnv(extra...)
	var out bytes.Buffer
	cmd.Stdout = &out
	cmd.Stderr = &out
	if err := cmd.Start(); err != nil {
		return "", err
	}
	done := make(chan error, 1)
	go func() { done <- cmd.Wait() }()
	select {
	case err := <-done:
		return out.String(), err
	case <-time.After(timeout):
		cmd.Process.Kill()
		<-done
		return out.String(), fmt.Errorf("watchdog: worker exceeded %v", timeout)
	}
}

var resultRe = regexp.MustCompile(`(?m)^RESULT (ok|violation) hash=([0-9a-f]+) steps=(\d+) ?(.*)$`)

type replayVerdict struct {
	Violation bool
	Hash      string
	Oracle    string
	Signature string
	Msg       string
	Raw       string
}

func replayOnce(bin, casePath string, trace bool) (*replayVerdict, error) {
	extra := []string{"VERIF_CASE=" + casePath}
	if trace {
		extra = append(extra, "VERIF_TRACE=1")
	}
	out, err := runWorkerCmd(bin, "TestReplay", 10*time.Minute, extra...)
	if strings.Contains(out, "HARNESS-ERROR") {
		return nil, fmt.Errorf("harness error during replay: %s", out)
	}
	m := resultRe.FindStringSubmatch(out)
	if m == nil {
		return nil, fmt.Errorf("replay produced no verdict (err=%v): %s", err, tail(out, 2000))
	}
	v := &replayVerdict{Violation: m[1] == "violation", Hash: m[2], Raw: out}
	if v.Violation {
		var vv struct{ Oracle, Msg, Signature string }
		json.Unmarshal([]byte(m[4]), &vv)
		v.Oracle, v.Msg, v.Signature = vv.Oracle, vv.Msg, vv.Signature
	}
	return v, nil
}

func tail(s string, n int) string {
	if len(s) > n {
		return s[len(s)-n:]
	}
	return s
}

// tierBudget returns the wall-clock budget per shard in seconds and the number of cases per shard (0 = unlimited).
//
// Default mode (no VERIF_BUDGET_S): every one of the 16 shards runs a FIXED number of cases taken from budgets.json
// (calibrated on the 16-core sandbox to about 40 s for the quick and about 10 min for the thorough tier), under a generous
// wall-clock cap. Since a case is a pure function of (VERIF_SEED, property, shard, index), the explored set is then
// the same on every machine - what was validated on the unchanged tree is exactly what a later run explores.
// With VERIF_BUDGET_S set the run is time-bounded instead (mutant runs, sweeps).
func tierBudget(prop, tier string) (seconds int, runsPerShard int) {
	if v := os.Getenv("VERIF_BUDGET_S"); v != "" {
		if n, err := strconv.Atoi(v); err == nil {
			return n, 0
		}
	}
	nominal := 40
	if tier == "thorough" {
		nominal = 600
	}
	if b, err := os.ReadFile(filepath.Join(verifDir(), "budgets.json")); err == nil {
		var m map[string]map[string]int
		if json.Unmarshal(b, &m) == nil && m[prop][tier] > 0 {
			return nominal * 4, m[prop][tier]
		}
	}
	return nominal, 0
}

const shards = 16

var budgetMode string

func checkMain(prop, tier string) int {
	start := time.Now()
	seed := int64(1)
	if v := os.Getenv("VERIF_SEED"); v != "" {
		if n, err := strconv.ParseInt(v, 10, 64); err == nil {
			seed = n
		}
	}
	b, err := buildWorld(true)
	defer b.Cleanup()
	if err != nil {
		fmt.Fprintln(os.Stderr, "BUILD-ERROR:", err)
		return 2
	}
	fmt.Printf("built instrumented world in %.1fs (%d files rewritten)\n", b.Secs, b.Files)
	nw := runtime.NumCPU()
	if v := os.Getenv("VERIF_WORKERS"); v != "" {
		if n, err := strconv.Atoi(v); err == nil && n > 0 {
			nw = n
		}
	}
	budget, runsPerShard := tierBudget(prop, tier)
	budgetMode = fmt.Sprintf("time budget %d s per shard", budget)
	if runsPerShard > 0 {
		budgetMode = fmt.Sprintf("fixed %d cases per shard x %d shards (wall-clock cap %d s per shard)", runsPerShard, shards, budget)
	}
	maxRuns := "1073741824"
	if runsPerShard > 0 {
		maxRuns = strconv.Itoa(runsPerShard)
	}
	outDir := filepath.Join(b.Scratch, "out")
	os.MkdirAll(outDir, 0o755)
	known := loadKnown()
	var openSigs []string
	for _, k := range known {
		if k.Property == prop && k.Status == "open" {
			openSigs = append(openSigs, k.Signature)
		}
	}
	var wg sync.WaitGroup
	par := nw // processes running at a time
	if os.Getenv("VERIF_WORKERS") == "" {
		nw = shards // the unit of work is the shard: always 16, whatever the machine
		if par > shards {
			par = shards
		}
	}
	sem := make(chan struct{}, par)
	outs := make([]string, nw)
	errs := make([]error, nw)
	for i := 0; i < nw; i++ {
		wg.Add(1)
		go func(i int) {
			defer wg.Done()
			sem <- struct{}{}
			defer func() { <-sem }()
			outs[i], errs[i] = runWorkerCmd(b.Bin, "TestWorker", time.Duration(budget)*time.Second*3+10*time.Minute,
				"VERIF_PROP="+prop, "VERIF_TIER="+tier, "VERIF_SEED="+strconv.FormatInt(seed, 10),
				"VERIF_SHARD="+strconv.Itoa(i), "VERIF_BUDGET_S="+strconv.Itoa(budget), "VERIF_MAXRUNS="+maxRuns, "VERIF_OUT="+outDir,
				"VERIF_KNOWN="+strings.Join(openSigs, "\x1f"))
		}(i)
	}
	wg.Wait()
	agg := &summary{Probes: map[string]int{}, Faults: map[string]int{}, SwitchPairs: map[string]bool{}}
	hashes := map[uint64]bool{}
	for i := 0; i < nw; i++ {
		sb, err := os.ReadFile(filepath.Join(outDir, fmt.Sprintf("summary-%s-%d.json", prop, i)))
		if err != nil {
			fmt.Fprintf(os.Stderr, "HARNESS-ERROR: worker %d produced no summary (%v): %s\n", i, errs[i], tail(outs[i], 3000))
			return 2
		}
		var s summary
		if err := json.Unmarshal(sb, &s); err != nil {
			fmt.Fprintf(os.Stderr, "HARNESS-ERROR: worker %d summary: %v\n", i, err)
			return 2
		}
		agg.Runs += s.Runs
		agg.Rule, agg.Real, agg.Stub = s.Rule, s.Real, s.Stub
		agg.Nontrivial += s.Nontrivial
		agg.Steps += s.Steps
		agg.Switches += s.Switches
		agg.SimSeconds += s.SimSeconds
		agg.Quiescences += s.Quiescences
		agg.Inconclusive += s.Inconclusive
		agg.Adoptions += s.Adoptions
		agg.MutexBlocks += s.MutexBlocks
		agg.SelectBlocks += s.SelectBlocks
		agg.Tasks += s.Tasks
		agg.HashesCapped = agg.HashesCapped || s.HashesCapped
		for _, h := range s.Hashes {
			hashes[h] = true
		}
		for k, v := range s.Probes {
			agg.Probes[k] += v
		}
		for k, v := range s.Faults {
			agg.Faults[k] += v
		}
		for k := range s.SwitchPairs {
			agg.SwitchPairs[k] = true
		}
		agg.Violations = append(agg.Violations, s.Violations...)
		agg.HarnessErrors = append(agg.HarnessErrors, s.HarnessErrors...)
		if len(agg.Samples) < 3 {
			agg.Samples = append(agg.Samples, s.Samples...)
		}
	}
	if len(agg.HarnessErrors) > 0 {
		fmt.Fprintf(os.Stderr, "HARNESS-ERROR: %d harness errors, first: %s\n", len(agg.HarnessErrors), agg.HarnessErrors[0])
		return 2
	}
	if agg.Adoptions > 0 {
		fmt.Fprintf(os.Stderr, "HARNESS-ERROR: %d unmanaged goroutine adoptions\n", agg.Adoptions)
		return 2
	}
	// violations: known findings first, then minimise + confirm one new violation per distinct signature
	sort.Slice(agg.Violations, func(i, j int) bool { return agg.Violations[i].Seed < agg.Violations[j].Seed })
	exit := 0
	printedKnown := map[string]bool{}
	confirmed := 0
	seenSig := map[string]bool{}
	for _, v := range agg.Violations {
		isKnown := false
		for _, k := range known {
			if k.Property == prop && k.Status == "open" && strings.Contains(v.Signature, k.Signature) {
				isKnown = true
				if !printedKnown[k.Signature] {
					printedKnown[k.Signature] = true
					fmt.Printf("KNOWN-FINDING: property=%s %s\n", prop, k.What)
				}
			}
		}
		if isKnown || seenSig[v.Oracle+"|"+v.Signature] || confirmed >= 3 {
			continue
		}
		seenSig[v.Oracle+"|"+v.Signature] = true
		path, verdict, err := confirmViolation(b.Bin, prop, v)
		if err != nil {
			fmt.Fprintf(os.Stderr, "HARNESS-ERROR: violation of %s (seed %d, %s) did not replay deterministically: %v\n", prop, v.Seed, v.Oracle, err)
			return 2
		}
		confirmed++
		exit = 1
		fmt.Printf("VIOLATION property=%s replay=%s\n", prop, path)
		fmt.Printf("  oracle=%s signature=%s seed=%d\n  %s\n", verdict.Oracle, verdict.Signature, v.Seed, strings.ReplaceAll(verdict.Msg, "\n", "\n  "))
	}
	knownHit := len(printedKnown)
	// every listed open finding of this property is named on every run, reproduced by this run's cases or not
	for _, k := range known {
		if k.Property == prop && k.Status == "open" && !printedKnown[k.Signature] {
			printedKnown[k.Signature] = true
			fmt.Printf("KNOWN-FINDING: property=%s %s (listed in known_findings.json; not reproduced by the cases of this run)\n", prop, k.What)
		}
	}
	wall := time.Since(start).Seconds()
	if err := writeEvidence(prop, tier, seed, agg, len(hashes), wall, nw, confirmed, knownHit, b); err != nil {
		fmt.Fprintln(os.Stderr, "HARNESS-ERROR: evidence:", err)
		return 2
	}
	fmt.Printf("%s %s: %d runs (%d non-trivial, %d distinct schedules), %d steps, %.0f simulated s, %d violations, %.1fs wall\n",
		prop, tier, agg.Runs, agg.Nontrivial, len(hashes), agg.Steps, agg.SimSeconds, confirmed, wall)
	return exit
}

// confirmViolation minimises the case, replays the minimal case twice in fresh processes and
// writes the replay file only if both replays fail identically.
func confirmViolation(bin, prop string, v violationRec) (string, *replayVerdict, error) {
	if v.CaseFile == "" {
		return "", nil, fmt.Errorf("no case file")
	}
	minPath := v.CaseFile + ".min"
	out, err := runWorkerCmd(bin, "TestMinimise", 5*time.Minute, "VERIF_CASE="+v.CaseFile, "VERIF_MIN_OUT="+minPath, "VERIF_MIN_S=60")
	use := v.CaseFile
	if err == nil && strings.Contains(out, "MINIMISE done") {
		use = minPath
	}
	r1, err := replayOnce(bin, use, false)
	if err != nil {
		return "", nil, err
	}
	r2, err := replayOnce(bin, use, false)
	if err != nil {
		return "", nil, err
	}
	if !r1.Violation || !r2.Violation || r1.Hash != r2.Hash || r1.Oracle != r2.Oracle {
		if use != v.CaseFile {
			// fall back to the unminimised case
			use = v.CaseFile
			r1, err = replayOnce(bin, use, false)
			if err != nil {
				return "", nil, err
			}
			r2, err = replayOnce(bin, use, false)
			if err != nil {
				return "", nil, err
			}
		}
		if !r1.Violation || !r2.Violation || r1.Hash != r2.Hash || r1.Oracle != r2.Oracle {
			return "", nil, fmt.Errorf("replays disagree: %v/%s/%s vs %v/%s/%s", r1.Violation, r1.Hash, r1.Oracle, r2.Violation, r2.Hash, r2.Oracle)
		}
	}
	dir := filepath.Join(verifDir(), "replays")
	if v := os.Getenv("VERIF_REPLAY_DIR"); v != "" {
		dir = v
	}
	os.MkdirAll(dir, 0o755)
	dst := filepath.Join(dir, fmt.Sprintf("%s-%d.json", prop, v.Seed))
	cb, err := os.ReadFile(use)
	if err != nil {
		return "", nil, err
	}
	if err := os.WriteFile(dst, cb, 0o644); err != nil {
		return "", nil, err
	}
	return dst, r1, nil
}

func replayMain(path string) int {
	b, err := buildWorld(true)
	defer b.Cleanup()
	if err != nil {
		fmt.Fprintln(os.Stderr, "BUILD-ERROR:", err)
		return 2
	}
	abs, _ := filepath.Abs(path)
	v, err := replayOnce(b.Bin, abs, os.Getenv("VERIF_TRACE") != "")
	if err != nil {
		fmt.Fprintln(os.Stderr, "HARNESS-ERROR:", err)
		return 2
	}
	if os.Getenv("VERIF_TRACE") != "" {
		fmt.Print(v.Raw)
	}
	if v.Violation {
		var cm struct{ Prop string }
		cb, _ := os.ReadFile(abs)
		json.Unmarshal(cb, &cm)
		fmt.Printf("VIOLATION property=%s replay=%s\n  oracle=%s hash=%s\n  %s\n", cm.Prop, abs, v.Oracle, v.Hash, strings.ReplaceAll(v.Msg, "\n", "\n  "))
		return 1
	}
	fmt.Printf("replay of %s: no violation (hash=%s)\n", abs, v.Hash)
	return 0
}
