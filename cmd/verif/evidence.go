package main

import (
	"encoding/json"
	"os"
	"path/filepath"
	"sort"
)

var levelOf = map[string]string{"C10": "fault_enumeration", "C13": "fault_enumeration"}

func writeEvidence(prop, tier string, seed int64, agg *summary, distinct int, wall float64, workers, violations, knownHit int, b *Build) error {
	level := levelOf[prop]
	if level == "" {
		level = "exploration"
	}
	var samples []any
	for _, s := range agg.Samples {
		var v any
		if json.Unmarshal(s, &v) == nil {
			samples = append(samples, v)
		}
		if len(samples) >= 3 {
			break
		}
	}
	if len(samples) == 0 {
		samples = append(samples, "no non-trivial case was generated in this run")
	}
	pairs := make([]string, 0, len(agg.SwitchPairs))
	for k := range agg.SwitchPairs {
		pairs = append(pairs, k)
	}
	sort.Strings(pairs)
	cov := map[string]any{
		"evaluations":                  agg.Runs,
		"distinct_nontrivial":          distinct,
		"nontrivial_runs":              agg.Nontrivial,
		"distinct_capped":              agg.HashesCapped,
		"rule":                         agg.Rule,
		"samples":                      samples,
		"exploration_bound":            budgetMode,
		"runs_per_hour":                float64(agg.Runs) / wall * 3600,
		"sim_seconds_total":            agg.SimSeconds,
		"steps_total":                  agg.Steps,
		"context_switches_total":       agg.Switches,
		"quiescent_points":             agg.Quiescences,
		"fault_fired":                  agg.Faults,
		"probes":                       agg.Probes,
		"distinct_switch_pairs":        len(agg.SwitchPairs),
		"linearizability_inconclusive": agg.Inconclusive,
		"unmanaged_adoptions":          agg.Adoptions,
		"sim_mutex_blocks":             agg.MutexBlocks,
		"blocking_selects":             agg.SelectBlocks,
		"tasks_total":                  agg.Tasks,
		"workers":                      workers,
		"components":                   map[string]any{"real": agg.Real, "stub": agg.Stub},
		"instrumented_files":           b.Files,
		"instrumenter_rewrites":        b.Counts,
		"known_findings_hit":           knownHit,
		"exhaustive":                   false,
	}
	ev := map[string]any{
		"property_id": prop,
		"tier":        tier,
		"seed":        seed,
		"level":       level,
		"coverage":    cov,
		"assumptions": []string{
			"sampling, not enumeration: seeded search over schedules, operation histories and fault sequences",
			"interleavings are explored at synchronisation points (mutex, cond, channel, select, go, blocking helpers) and sampled function-entry preemption points of the instrumented repository packages; uninstrumented dependencies run atomically between two points",
			"the instrumenter's rewrite preserves semantics (sim-level mutex/cond, determinised select, ordered map iteration)",
		},
		"wall_s":     wall,
		"violations": violations,
	}
	dir := filepath.Join(verifDir(), "evidence")
	if v := os.Getenv("VERIF_REPLAY_DIR"); v != "" {
		dir = filepath.Join(v, "evidence") // runs against scratch copies must not touch the committed evidence
	}
	if err := os.MkdirAll(dir, 0o755); err != nil {
		return err
	}
	out, err := json.MarshalIndent(ev, "", " ")
	if err != nil {
		return err
	}
	return os.WriteFile(filepath.Join(dir, prop+".json"), out, 0o644)
}
