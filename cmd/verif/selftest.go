package main

import (
	"fmt"
	"os"
	"os/exec"
	"sort"
	"strconv"
	"strings"
	"sync"
)

// selftestDeterminism runs the same seeds in several fresh processes at GOMAXPROCS 1/4/16 and
// compares trace hashes (DESIGN §10).
func selftestDeterminism(props []string, n int) int {
	b, err := buildWorld(true)
	defer b.Cleanup()
	if err != nil {
		fmt.Fprintln(os.Stderr, "BUILD-ERROR:", err)
		return 2
	}
	bad := 0
	for _, prop := range props {
		procs := []int{1, 1, 4, 4, 16, 16, 1, 4} // the last two run the seeds in reverse order
		outs := make([]string, len(procs))
		var wg sync.WaitGroup
		for i, gmp := range procs {
			wg.Add(1)
			go func(i, gmp int) {
				defer wg.Done()
				cmd := exec.Command(b.Bin, "-test.run", "^TestHashes$", "-test.timeout", "0")
				cmd.Env = append(os.Environ(), "GODEBUG=randseednop=0", "GOMAXPROCS="+strconv.Itoa(gmp),
					"VERIF_REVERSE="+map[bool]string{true: "1", false: ""}[i >= 6], "VERIF_PROP="+prop, "VERIF_HASHES="+strconv.Itoa(n), "VERIF_SEED="+os.Getenv("VERIF_SEED"), "VERIF_TIER="+os.Getenv("VERIF_TIER"))
				o, _ := cmd.CombinedOutput()
				var lines []string
				for _, l := range strings.Split(string(o), "\n") {
					if strings.HasPrefix(l, "HASH ") {
						lines = append(lines, l)
					}
				}
				sort.Slice(lines, func(a, b int) bool {
					var x, y int
					fmt.Sscanf(lines[a], "HASH %d", &x)
					fmt.Sscanf(lines[b], "HASH %d", &y)
					return x < y
				})
				outs[i] = strings.Join(lines, "\n")
			}(i, gmp)
		}
		wg.Wait()
		ref := strings.Split(outs[0], "\n")
		if len(ref) != n {
			fmt.Printf("%s: process 0 printed %d of %d hashes\n", prop, len(ref), n)
			bad++
			continue
		}
		diverged := 0
		for i := 1; i < len(outs); i++ {
			cur := strings.Split(outs[i], "\n")
			for j := range ref {
				if j >= len(cur) || cur[j] != ref[j] {
					diverged++
					if diverged <= 5 {
						c := ""
						if j < len(cur) {
							c = cur[j]
						}
						fmt.Printf("%s: DIVERGENCE process %d (GOMAXPROCS=%d): %q vs %q\n", prop, i, procs[i], ref[j], c)
					}
				}
			}
		}
		harness := strings.Count(outs[0], "HARNESS:")
		fmt.Printf("%s: %d seeds x %d processes (GOMAXPROCS 1/4/16): %d divergences, %d harness errors\n", prop, n, len(procs), diverged, harness)
		if diverged > 0 || harness > 0 {
			bad++
		}
	}
	if bad > 0 {
		return 1
	}
	return 0
}
