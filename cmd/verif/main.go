package main

import (
	"fmt"
	"os"
)

func main() {
	os.Setenv("PATH", goBin+":"+os.Getenv("PATH"))
	os.Setenv("GOTOOLCHAIN", "local")
	os.Setenv("GOFLAGS", "-mod=mod")
	os.Setenv("GOPROXY", "off")
	os.Setenv("GOSUMDB", "off")
	if len(os.Args) < 2 {
		fmt.Fprintln(os.Stderr, "usage: verif build|check|replay|selftest ...")
		os.Exit(2)
	}
	switch os.Args[1] {
	case "build":
		b, err := buildWorld(os.Getenv("VERIF_PREEMPT") != "")
		if err != nil {
			fmt.Fprintln(os.Stderr, err)
			if b != nil && os.Getenv("VERIF_KEEP") == "" {
				b.Cleanup()
			}
			os.Exit(2)
		}
		fmt.Printf("built %s in %.1fs: %d files rewritten, rules %v\n", b.Bin, b.Secs, b.Files, b.Counts)
	case "check":
		// verif check <id> [--tier quick|thorough]
		if len(os.Args) < 3 {
			fmt.Fprintln(os.Stderr, "usage: verif check <id> [--tier quick|thorough]")
			os.Exit(2)
		}
		tier := os.Getenv("VERIF_TIER")
		for i := 3; i < len(os.Args)-1; i++ {
			if os.Args[i] == "--tier" {
				tier = os.Args[i+1]
			}
		}
		if tier == "" {
			tier = "quick"
		}
		os.Exit(checkMain(os.Args[2], tier))
	case "selftest":
		// verif selftest determinism <n> <prop>...
		if len(os.Args) < 5 || os.Args[2] != "determinism" {
			fmt.Fprintln(os.Stderr, "usage: verif selftest determinism <nseeds> <prop>...")
			os.Exit(2)
		}
		n := 0
		fmt.Sscan(os.Args[3], &n)
		os.Exit(selftestDeterminism(os.Args[4:], n))
	case "replay":
		if len(os.Args) < 3 {
			fmt.Fprintln(os.Stderr, "usage: verif replay <case.json>")
			os.Exit(2)
		}
		os.Exit(replayMain(os.Args[2]))
	default:
		fmt.Fprintln(os.Stderr, "unknown command", os.Args[1])
		os.Exit(2)
	}
}
