package main

import (
	"fmt"
	"io/fs"
	"os"
	"os/exec"
	"path/filepath"
	"regexp"
	"strings"
)

var gofailRe = regexp.MustCompile(`^(\s*)// gofail: var (\w+) (struct\{\}|string)\s*$`)

// makeBboltCopy writes a copy of the bbolt module into dst in which every gofail marker is turned into a call of
// the package-level hook VerifFailpoint (DESIGN §3 R8). Returns the number of failpoints.
func makeBboltCopy(repo, dst string) (int, error) {
	cmd := exec.Command(filepath.Join(goBin, "go"), "list", "-m", "-f", "{{.Dir}}", "go.etcd.io/bbolt")
	cmd.Dir = repo
	cmd.Env = goEnv()
	outb, err := cmd.Output()
	if err != nil {
		return 0, fmt.Errorf("locate bbolt module: %w", err)
	}
	src := strings.TrimSpace(string(outb))
	points := 0
	err = filepath.WalkDir(src, func(p string, d fs.DirEntry, err error) error {
		if err != nil {
			return err
		}
		rel, _ := filepath.Rel(src, p)
		if d.IsDir() {
			switch rel {
			case "cmd", "tests", "scripts", "internal/btesting", "internal/tests", "internal/guts_cli", "internal/surgeon":
				return filepath.SkipDir
			}
			return os.MkdirAll(filepath.Join(dst, rel), 0o755)
		}
		if strings.HasSuffix(p, "_test.go") || !(strings.HasSuffix(p, ".go") || rel == "go.mod" || rel == "go.sum") {
			return nil
		}
		b, err := os.ReadFile(p)
		if err != nil {
			return err
		}
		if strings.HasSuffix(p, ".go") {
			lines := strings.Split(string(b), "\n")
			var outl []string
			for i := 0; i < len(lines); i++ {
				m := gofailRe.FindStringSubmatch(lines[i])
				if m == nil {
					outl = append(outl, lines[i])
					continue
				}
				points++
				ind, name, typ := m[1], m[2], m[3]
				if typ == "struct{}" {
					outl = append(outl, fmt.Sprintf("%sif VerifFailpoint != nil { VerifFailpoint(%q) }", ind, name))
					continue
				}
				var code []string
				for i+1 < len(lines) {
					t := strings.TrimSpace(lines[i+1])
					if !strings.HasPrefix(t, "// ") || strings.HasPrefix(t, "// gofail") {
						break
					}
					code = append(code, strings.TrimPrefix(t, "// "))
					i++
				}
				outl = append(outl, fmt.Sprintf("%sif VerifFailpoint != nil {", ind))
				outl = append(outl, fmt.Sprintf("%s\tif %s := VerifFailpoint(%q); %s != \"\" {", ind, name, name, name))
				for _, cl := range code {
					outl = append(outl, ind+"\t\t"+cl)
				}
				outl = append(outl, ind+"\t}", ind+"}")
			}
			b = []byte(strings.Join(outl, "\n"))
			if rel == "db.go" {
				// a managed transaction runs user callbacks while holding bbolt's real locks: the harness makes the
				// whole transaction one atomic step of the calling task (after a scheduling point in front of it)
				src := string(b)
				for _, sig := range []string{"func (db *DB) Update(fn func(*Tx) error) error {", "func (db *DB) View(fn func(*Tx) error) error {"} {
					if !strings.Contains(src, sig) {
						return fmt.Errorf("bbolt copy: %q not found in db.go", sig)
					}
					src = strings.Replace(src, sig, sig+"\n\tif VerifTxEnter != nil {\n\t\tdefer VerifTxEnter()()\n\t}", 1)
				}
				b = []byte(src)
			}
		}
		return os.WriteFile(filepath.Join(dst, rel), b, 0o644)
	})
	if err != nil {
		return 0, err
	}
	hook := `package bbolt

// VerifFailpoint is called at every former gofail marker with the marker's name. For error-type failpoints a
// non-empty result is the error text to inject. It is nil outside the verification harness.
var VerifFailpoint func(name string) string

// VerifTxEnter is called at the start of every managed transaction (Update/View); the function it returns is
// called when the transaction function returns.
var VerifTxEnter func() func()
`
	if err := os.WriteFile(filepath.Join(dst, "zz_verif_hook.go"), []byte(hook), 0o644); err != nil {
		return 0, err
	}
	return points, nil
}
