package main

import (
	"encoding/json"
	"fmt"
	"io/fs"
	"os"
	"os/exec"
	"path/filepath"
	"strings"
	"time"

	"verif.local/verif/internal/instr"
)

const goBin = "/opt/veriftools/go1.26.8/bin"

func repoDir() string {
	if v := os.Getenv("VERIF_REPO"); v != "" {
		return v
	}
	return "/repo"
}

func verifDir() string {
	if v := os.Getenv("VERIF_HOME"); v != "" {
		return v
	}
	exe, err := os.Executable()
	if err == nil {
		d := filepath.Dir(filepath.Dir(exe))
		if _, err := os.Stat(filepath.Join(d, "sim", "simrt")); err == nil {
			return d
		}
	}
	return "/verif"
}

func goEnv() []string {
	env := []string{}
	for _, e := range os.Environ() {
		if strings.HasPrefix(e, "GOFLAGS=") || strings.HasPrefix(e, "GOPROXY=") || strings.HasPrefix(e, "GOSUMDB=") ||
			strings.HasPrefix(e, "GOTOOLCHAIN=") || strings.HasPrefix(e, "PATH=") || strings.HasPrefix(e, "GOWORK=") {
			continue
		}
		env = append(env, e)
	}
	return append(env, "GOFLAGS=-mod=mod", "GOPROXY=off", "GOSUMDB=off", "GOTOOLCHAIN=local", "GOWORK=off",
		"PATH="+goBin+":"+os.Getenv("PATH"))
}

// Build describes an instrumented build of the world binary.
type Build struct {
	Scratch string
	Bin     string
	Counts  map[string]int
	Files   int
	Secs    float64
}

// harnessRel is where /verif/sim is overlaid inside the repository module.
const harnessRel = "pkg/controller/runtime/zzverif"

// facades are extra files overlaid into internal packages (DESIGN §3).
var facades = map[string]string{
	"facade/queue_facade.go": "pkg/controller/runtime/internal/qruntime/zz_verif_facade.go",
}

func buildWorld(preempt bool) (*Build, error) {
	start := time.Now()
	repo := repoDir()
	scratch, err := os.MkdirTemp("/var/tmp", "verif.")
	if err != nil {
		return nil, err
	}
	b := &Build{Scratch: scratch}
	res, err := instr.Instrument(instr.Options{
		Repo:     repo,
		Out:      scratch,
		Patterns: []string{"./pkg/..."},
		Skip:     []string{"/conformance", "/rtestutils", "/zzverif"},
		GoBin:    goBin,
		Preempt:  preempt,
	})
	if err != nil {
		return b, err
	}
	b.Counts = res.Counts
	b.Files = len(res.Files)
	overlay := map[string]string{}
	for k, v := range res.Files {
		overlay[k] = v
	}
	simRoot := filepath.Join(verifDir(), "sim")
	err = filepath.WalkDir(simRoot, func(p string, d fs.DirEntry, err error) error {
		if err != nil {
			return err
		}
		if d.IsDir() || !strings.HasSuffix(p, ".go") {
			return nil
		}
		rel := strings.TrimPrefix(p, simRoot+"/")
		if strings.HasPrefix(rel, "facade/") {
			if dst, ok := facades[rel]; ok {
				overlay[filepath.Join(repo, dst)] = p
			}
			return nil
		}
		if strings.HasPrefix(rel, "simrt/") && strings.HasSuffix(rel, "_test.go") {
			return nil
		}
		overlay[filepath.Join(repo, harnessRel, rel)] = p
		return nil
	})
	if err != nil {
		return b, err
	}
	oj, _ := json.Marshal(map[string]any{"Replace": overlay})
	ovPath := filepath.Join(scratch, "overlay.json")
	if err := os.WriteFile(ovPath, oj, 0o644); err != nil {
		return b, err
	}
	// modfile: the repository's go.mod plus porcupine
	gomod, err := os.ReadFile(filepath.Join(repo, "go.mod"))
	if err != nil {
		return b, err
	}
	gomod = append(gomod, []byte("\nrequire github.com/anishathalye/porcupine v1.3.0\n")...)
	// bbolt with its gofail markers turned into calls of a hook (C10)
	bdir := filepath.Join(scratch, "bbolt")
	npoints, err := makeBboltCopy(repo, bdir)
	if err != nil {
		return b, err
	}
	if npoints < 5 {
		return b, fmt.Errorf("bbolt copy: only %d failpoints found", npoints)
	}
	gomod = append(gomod, []byte("\nreplace go.etcd.io/bbolt => "+bdir+"\n")...)
	if err := os.WriteFile(filepath.Join(scratch, "go.mod"), gomod, 0o644); err != nil {
		return b, err
	}
	gosum, _ := os.ReadFile(filepath.Join(repo, "go.sum"))
	if err := os.WriteFile(filepath.Join(scratch, "go.sum"), gosum, 0o644); err != nil {
		return b, err
	}
	b.Bin = filepath.Join(scratch, "world.test")
	cmd := exec.Command(filepath.Join(goBin, "go"), "test", "-c", "-tags", "verif", "-vet=off",
		"-overlay", ovPath, "-modfile", filepath.Join(scratch, "go.mod"),
		"-o", b.Bin, "./"+harnessRel+"/worlds")
	cmd.Dir = repo
	cmd.Env = goEnv()
	out, err := cmd.CombinedOutput()
	if err != nil {
		return b, fmt.Errorf("go test -c failed: %v\n%s", err, out)
	}
	b.Secs = time.Since(start).Seconds()
	return b, nil
}

func (b *Build) Cleanup() {
	if b != nil && b.Scratch != "" && os.Getenv("VERIF_KEEP") == "" {
		os.RemoveAll(b.Scratch)
	}
}
