//go:build verif

// This file is overlaid into pkg/controller/runtime/internal/qruntime by the verification build (never committed
// to the repository): it re-exports the internal reconcile queue so that the simulation harness can drive it directly.
package qruntime

import "github.com/cosi-project/runtime/pkg/controller/runtime/internal/qruntime/internal/queue"

// VerifQueue is the internal reconcile queue.
type VerifQueue[K comparable, V any] = queue.Queue[K, V]

// VerifItem is an item handed out by the queue.
type VerifItem[K comparable, V any] = queue.Item[K, V]

// VerifNewQueue creates a queue.
func VerifNewQueue[K comparable, V any]() *queue.Queue[K, V] { return queue.NewQueue[K, V]() }
