package worlds

import (
	"fmt"
	"regexp"
	"strconv"
	"strings"

	"github.com/cosi-project/runtime/pkg/controller/runtime/zzverif/simrt"
	"github.com/cosi-project/runtime/pkg/resource"
	"github.com/cosi-project/runtime/pkg/state"
)

// SelTerm is one label term of a selector (abstract description shared by the real options and the reference
// evaluator).
type SelTerm struct {
	Key    string   `json:"key"`
	Op     string   `json:"op"` // exists | equal | in | lt | lte | ltnum | ltenum
	Values []string `json:"values,omitempty"`
	Invert bool     `json:"invert,omitempty"`
}

// Selector is a label/ID selector: OR over queries, AND within a query, AND with the id regexp.
type Selector struct {
	Queries [][]SelTerm `json:"queries,omitempty"`
	IDRe    string      `json:"id_re,omitempty"`
}

func (s Selector) empty() bool { return len(s.Queries) == 0 && s.IDRe == "" }

func (s Selector) String() string {
	var qs []string
	for _, q := range s.Queries {
		var ts []string
		for _, t := range q {
			inv := ""
			if t.Invert {
				inv = "!"
			}
			ts = append(ts, fmt.Sprintf("%s%s(%s,%v)", inv, t.Op, t.Key, t.Values))
		}
		qs = append(qs, strings.Join(ts, " AND "))
	}
	out := strings.Join(qs, " OR ")
	if s.IDRe != "" {
		out += " id~" + s.IDRe
	}
	return out
}

func termOption(t SelTerm) resource.LabelQueryOption {
	var opts []resource.TermOption
	if t.Invert {
		opts = append(opts, resource.NotMatches)
	}
	v := ""
	if len(t.Values) > 0 {
		v = t.Values[0]
	}
	switch t.Op {
	case "exists":
		return resource.LabelExists(t.Key, opts...)
	case "equal":
		return resource.LabelEqual(t.Key, v, opts...)
	case "in":
		return resource.LabelIn(t.Key, t.Values, opts...)
	case "lt":
		return resource.LabelLT(t.Key, v, opts...)
	case "lte":
		return resource.LabelLTE(t.Key, v, opts...)
	case "ltnum":
		return resource.LabelLTNumeric(t.Key, v, opts...)
	case "ltenum":
		return resource.LabelLTENumeric(t.Key, v, opts...)
	}
	panic("unknown op " + t.Op)
}

func (s Selector) listOpts() []state.ListOption {
	var out []state.ListOption
	for _, q := range s.Queries {
		var terms []resource.LabelQueryOption
		for _, t := range q {
			terms = append(terms, termOption(t))
		}
		out = append(out, state.WithLabelQuery(terms...))
	}
	if s.IDRe != "" {
		out = append(out, state.WithIDQuery(resource.IDRegexpMatch(regexp.MustCompile(s.IDRe))))
	}
	return out
}

func (s Selector) watchOpts() []state.WatchKindOption {
	var out []state.WatchKindOption
	for _, q := range s.Queries {
		var terms []resource.LabelQueryOption
		for _, t := range q {
			terms = append(terms, termOption(t))
		}
		out = append(out, state.WatchWithLabelQuery(terms...))
	}
	if s.IDRe != "" {
		out = append(out, state.WatchWithIDQuery(resource.IDRegexpMatch(regexp.MustCompile(s.IDRe))))
	}
	return out
}

// ---- reference evaluator, written from the documented semantics (independent of resource.Labels.Matches)

var refUnits = map[string]int64{
	"": 1, "k": 1e3, "m": 1e6, "g": 1e9, "t": 1e12, "p": 1e15,
	"ki": 1 << 10, "mi": 1 << 20, "gi": 1 << 30, "ti": 1 << 40, "pi": 1 << 50,
}

// refNumber parses "<integer><optional unit suffix>".
func refNumber(v string) (int64, bool) {
	v = strings.TrimSpace(v)
	i := 0
	for i < len(v) && (v[i] == '-' || (v[i] >= '0' && v[i] <= '9')) {
		i++
	}
	if i == 0 {
		return 0, false
	}
	n, err := strconv.ParseInt(v[:i], 10, 64)
	if err != nil {
		return 0, false
	}
	unit := strings.ToLower(strings.TrimSpace(v[i:]))
	// binary suffixes are recognised by their first two letters (KiB, Mi, ...), decimal ones by the first letter
	if len(unit) >= 2 {
		if m, ok := refUnits[unit[:2]]; ok && unit[1] == 'i' {
			return n * m, true
		}
	}
	if len(unit) >= 1 {
		if m, ok := refUnits[unit[:1]]; ok {
			return n * m, true
		}
		return 0, false
	}
	return n, true
}

// refTerm: (matched, definite). A comparison on a missing label or on non-numeric operands is never satisfied,
// inverted or not.
func refTerm(t SelTerm, labels map[string]string) bool {
	val, present := labels[t.Key]
	comparison := t.Op == "lt" || t.Op == "lte" || t.Op == "ltnum" || t.Op == "ltenum"
	if !present {
		if comparison {
			return false
		}
		return t.Invert // exists / equal / in on a missing label do not match; inverted they do
	}
	var m bool
	switch t.Op {
	case "exists":
		m = true
	case "equal":
		m = len(t.Values) > 0 && val == t.Values[0]
	case "in":
		for _, x := range t.Values {
			if x == val {
				m = true
			}
		}
	case "lt":
		m = len(t.Values) > 0 && val < t.Values[0]
	case "lte":
		m = len(t.Values) > 0 && val <= t.Values[0]
	case "ltnum", "ltenum":
		if len(t.Values) == 0 {
			m = false
			break
		}
		a, ok1 := refNumber(val)
		b, ok2 := refNumber(t.Values[0])
		if !ok1 || !ok2 {
			return false
		}
		if t.Op == "ltnum" {
			m = a < b
		} else {
			m = a <= b
		}
	}
	if t.Invert {
		return !m
	}
	return m
}

// refMatch evaluates the selector on a resource's labels and id.
func refMatch(s Selector, labels map[string]string, id string) bool {
	if s.IDRe != "" && !regexp.MustCompile(s.IDRe).MatchString(id) {
		return false
	}
	if len(s.Queries) == 0 {
		return true
	}
	for _, q := range s.Queries {
		all := true
		for _, t := range q {
			if !refTerm(t, labels) {
				all = false
				break
			}
		}
		if all {
			return true
		}
	}
	return false
}

// labelsOfSnap parses the rendered label string of a Snap ("k=v;k2=v2;").
func labelsOfSnap(s Snap) map[string]string {
	m := map[string]string{}
	for _, kv := range strings.Split(s.Labels, ";") {
		if kv == "" {
			continue
		}
		p := strings.SplitN(kv, "=", 2)
		if len(p) == 2 {
			m[p[0]] = p[1]
		}
	}
	return m
}

func refMatchSnap(s Selector, sn Snap) bool { return refMatch(s, labelsOfSnap(sn), sn.ID) }

var selLabelValues = []string{"0", "1", "2", "10", "abc", "1Ki", "2k", "-3", "", "1Mi", " 7 "}

func genTerm(r *simrt.RNG) SelTerm {
	t := SelTerm{Key: []string{"k", "k", "z"}[r.Intn(3)], Invert: r.Bool(0.3)}
	t.Op = []string{"exists", "equal", "in", "lt", "lte", "ltnum", "ltenum"}[r.Pick([]int{3, 4, 3, 1, 1, 3, 3})]
	switch t.Op {
	case "exists":
	case "in":
		n := r.Intn(4)
		for i := 0; i < n; i++ {
			t.Values = append(t.Values, selLabelValues[r.Intn(len(selLabelValues))])
		}
	default:
		t.Values = []string{selLabelValues[r.Intn(len(selLabelValues))]}
	}
	return t
}

func genSelector(r *simrt.RNG) Selector {
	var s Selector
	nq := r.Pick([]int{1, 5, 2})
	for i := 0; i < nq; i++ {
		var q []SelTerm
		for j := 0; j < 1+r.Pick([]int{5, 3, 1}); j++ {
			q = append(q, genTerm(r))
		}
		s.Queries = append(s.Queries, q)
	}
	if r.Bool(0.25) {
		s.IDRe = []string{"^r0$", "r[01]", "^x", "1$", "."}[r.Intn(5)]
	}
	return s
}
