package worlds

import (
	"context"

	"github.com/cosi-project/runtime/pkg/controller/runtime/zzverif/simrt"
	"github.com/cosi-project/runtime/pkg/state"
)

// remoteAvailable tells whether the simulated gRPC leg exists yet.
const remoteAvailable = false

func remoteState(ctx context.Context, s *simrt.Sim, core state.CoreState, faults any) state.State {
	panic("remote leg not built")
}
