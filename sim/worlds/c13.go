package worlds

import (
	"context"
	"encoding/json"
	"fmt"
	"github.com/cosi-project/runtime/pkg/state"
	"strings"
	"testing"
	"time"

	"github.com/cosi-project/runtime/pkg/controller/runtime/zzverif/simrt"
)

// ---------------------------------------------------------------------------
// C13 — remote watches survive transport failures without gaps or duplicates (DESIGN §7 C13, fault_enumeration)

// C13Case is a C13 history; its fault scripts are enumerated inside Run.
type C13Case struct {
	Common
	Hist    HistCfg     `json:"hist"`
	Writers [][]WriteOp `json:"writers"`
	Watcher WatchSpec   `json:"watcher"`
	NoRetry bool        `json:"no_retry,omitempty"`
	// Sel: the watch carries a label / id selector (kind and aggregated watches): a resumed watch must still carry it
	Sel      *Selector `json:"sel,omitempty"`
	StreamBf int       `json:"stream_buf,omitempty"`
	// Extra are sampled multi-fault scripts run in addition to the enumerated single-reset scripts.
	Extra []TransportFaults `json:"extra,omitempty"`
	// Only, if set, restricts the run to this one script (minimised replays).
	Only *TransportFaults `json:"only,omitempty"`
	// MaxScripts bounds the enumeration per case in the quick tier (0 = all).
	MaxScripts int `json:"max_scripts,omitempty"`
}

type c13 struct{}

func init() { register(c13{}) }

func (c13) ID() string { return "C13" }

func (c13) Rule() string {
	return "case = server-side history config + writers (<=25 commits, writing straight to the server's store, also during outages) + one client-side watch through the gRPC client adapter (single / kind / aggregated, with or without bootstrap) on the simulated transport; for every case the fault-free run is followed by the ENUMERATION of every stream message index k as reset point, alone and followed by 1-3 failed re-establishments (failing at Watch() or at the first Recv), plus sampled multi-reset scripts, long outages (beyond the 15-minute retry budget / beyond the retained history) and retries-disabled variants; each sub-run's client stream is compared with the server's commit log; non-trivial = the case had >=3 stream messages so that >=6 distinct fault scripts ran and a resumed stream was checked; distinct = distinct hash over the sub-run schedules"
}

func (c13) Components() (real, stub []string) {
	return []string{"pkg/state/protobuf/client (watchAdapter: bookmark tracking, exponential-backoff re-establishment)", "pkg/state/protobuf/server (Watch handler)", "pkg/state/impl/inmem (bookmark resume, history ring)", "cenkalti/backoff (real, on the virtual clock)", "vtproto marshalling of every message"},
		[]string{"gRPC/HTTP2 stack: in-process transport with scripted stream resets and failing re-establishments", "Go scheduler choice (simrt)", "OS clock (synctest)"}
}

func (c13) Decode(b []byte) (Case, error) {
	var c C13Case
	err := json.Unmarshal(b, &c)
	return &c, err
}

func (c13) Gen(seed uint64, tier string) Case {
	r := simrt.NewRNG(seed)
	c := &C13Case{Common: Common{Prop: "C13", Seed: seed, Tier: tier}}
	if r.Bool(0.6) {
		c.Hist = genHist(r)
		if c.Hist.Initial > 0 && c.Hist.Initial < 3 {
			c.Hist.Initial, c.Hist.Max = 3, max(3, c.Hist.Max)
		}
	}
	nids := 1 + r.Intn(3)
	nw := 1 + r.Intn(2)
	uniq := 0
	maxOps := 8
	if tier == "thorough" {
		maxOps = 13
	}
	for i := 0; i < nw; i++ {
		ops := genWriteOps(r, i, 2+r.Intn(maxOps), []string{TypeA}, nids, &uniq, false)
		for j := range ops {
			if r.Bool(0.5) {
				ops[j].SleepMs = 1 + r.Intn(1500)
			}
		}
		c.Writers = append(c.Writers, ops)
	}
	c.Watcher = genWatchSpec(r, []string{TypeA}, nids)
	c.Watcher.CancelAfter, c.Watcher.StallAfter, c.Watcher.StallMs = 0, 0, 0
	if c.Watcher.DelayMs > 300 {
		c.Watcher.DelayMs = 300
	}
	c.Watcher.StartMs = r.Intn(1500)
	switch {
	case r.Bool(0.25):
		// started with tail events: a resumed watch continues from its bookmark, not from "the last N events" again
		c.Watcher.Tail = 1 + r.Intn(6)
		c.Watcher.Bootstrap, c.Watcher.BootstrapBookmark = false, false
	case c.Watcher.Kind != "single" && r.Bool(0.35):
		c.Sel = simpleSelector(r, c.Writers)
	}
	c.StreamBf = []int{0, 1, 4}[r.Intn(3)]
	c.NoRetry = r.Bool(0.1)
	// sampled multi-fault scripts
	ne := 1 + r.Intn(3)
	for i := 0; i < ne; i++ {
		f := TransportFaults{}
		switch r.Intn(3) {
		case 0: // several resets on successive streams
			for sN := 1; sN <= 1+r.Intn(3); sN++ {
				f.Resets = append(f.Resets, StreamFault{Stream: sN, After: r.Intn(5)})
			}
		case 1: // an outage longer than the retry budget
			f.Resets = []StreamFault{{Stream: 1, After: 1 + r.Intn(4)}}
			f.OutageFrom, f.OutageLen = 2, 40
		case 2: // reset + a few failed re-establishments of both kinds
			f.Resets = []StreamFault{{Stream: 1, After: r.Intn(5)}}
			f.WatchFail = map[int]string{}
			for a := 2; a < 2+r.Intn(4); a++ {
				f.WatchFail[a] = []string{"call", "first-recv"}[r.Intn(2)]
			}
		}
		c.Extra = append(c.Extra, f)
	}
	if tier != "thorough" {
		c.MaxScripts = 30
	}
	c.Policy = genPolicy(r, []string{"writer", "watcher"})
	return c
}

func (c13) Shrink(cs Case) []Case {
	c := cs.(*C13Case)
	var out []Case
	if len(c.Writers) > 1 {
		for i := range c.Writers {
			n := cloneJSON(c)
			n.Writers = dropAt(n.Writers, i)
			out = append(out, n)
		}
	}
	for i := range c.Writers {
		for j := range c.Writers[i] {
			n := cloneJSON(c)
			n.Writers[i] = dropAt(n.Writers[i], j)
			out = append(out, n)
		}
	}
	if c.Sel != nil {
		n := cloneJSON(c)
		n.Sel = nil
		out = append(out, n)
	}
	if c.Watcher.Tail > 0 {
		n := cloneJSON(c)
		n.Watcher.Tail = 0
		out = append(out, n)
	}
	if c.Only != nil {
		if len(c.Only.Resets) > 1 {
			for i := range c.Only.Resets {
				n := cloneJSON(c)
				n.Only.Resets = dropAt(n.Only.Resets, i)
				out = append(out, n)
			}
		}
		if len(c.Only.WatchFail) > 0 || c.Only.OutageLen > 0 {
			n := cloneJSON(c)
			n.Only.WatchFail, n.Only.OutageLen, n.Only.OutageFrom = nil, 0, 0
			out = append(out, n)
		}
	}
	if c.Watcher.DelayMs != 0 || c.Watcher.StartMs != 0 || c.Watcher.ChanCap != 0 {
		n := cloneJSON(c)
		n.Watcher.DelayMs, n.Watcher.StartMs, n.Watcher.ChanCap = 0, 0, 0
		out = append(out, n)
	}
	if c.Hist != (HistCfg{}) {
		n := cloneJSON(c)
		n.Hist = HistCfg{}
		out = append(out, n)
	}
	if c.Policy.Kind != "walk" || c.Policy.SwitchProb != 0.2 || c.Policy.PermuteMaps || c.Policy.StarvePrefix != "" || c.Policy.PreemptProb != 0 {
		n := cloneJSON(c)
		n.Policy = simrt.Policy{Kind: "walk", SwitchProb: 0.2}
		out = append(out, n)
	}
	return out
}

type c13Sub struct {
	out       *Outcome
	msgs      int // stream messages delivered on the first stream (baseline)
	script    TransportFaults
	errored   bool
	resumed   bool
	steps     int64
	hash      uint64
	simtime   time.Duration
	switches  int64
	nontrivOK bool
}

func scriptString(f TransportFaults) string {
	b, _ := json.Marshal(f)
	return string(b)
}

// runC13Script runs the history once under one fault script.
func runC13Script(t *testing.T, c *C13Case, script TransportFaults, trace bool) *c13Sub {
	sub := &c13Sub{out: &Outcome{}, script: script}
	out := sub.out
	script.StreamBuf = c.StreamBf
	script.NoRetry = script.NoRetry || c.NoRetry
	var acks []Ack
	var ev int64
	rec := &WatchRec{Spec: c.Watcher, Name: "watcher"}
	var firstFaultAt, erroredAt time.Duration
	st, panics, berr := simrt.Run(t, simrt.Config{Seed: c.Seed, Policy: c.Policy, Trace: trace}, func(s *simrt.Sim) {
		w := NewStoreWorld("inmem+tap", c.Hist)
		ctx, cancel := context.WithCancel(context.Background())
		defer cancel()
		ad, tr := remoteCore(w.Core, &script, out)
		commits := func(ns, typ string) int {
			n := 0
			for _, cm := range w.Log {
				if cm.NS == ns && cm.Type == typ {
					n++
				}
			}
			return n
		}
		env := &watchEnv{prop: "C13", st: ad, ev: &ev, out: out, commits: commits}
		for i, ops := range c.Writers {
			wr := &writer{st: w.Core, acks: &acks, ev: &ev, out: out}
			s.Spawn(fmt.Sprintf("writer%d", i), func() {
				for _, op := range ops {
					wr.do(ctx, op)
				}
			})
		}
		var selOpts []state.WatchKindOption
		if c.Sel != nil {
			selOpts = c.Sel.watchOpts()
		}
		s.Spawn("watcher", func() { runWatcher(ctx, env, rec, selOpts, nil) })
		if r := s.Settle(1500000); r != simrt.Quiescent {
			out.HarnessErr = fmt.Sprintf("C13 run did not become quiescent: %v live=%v script=%s", r, s.Live(), scriptString(script))
			return
		}
		if ps := s.Panics(); len(ps) > 0 {
			out.violate("C13/panic", "panic:"+firstLine(ps[0].Value), "task %s panicked: %s\n%s", ps[0].Task, ps[0].Value, ps[0].Stack)
			return
		}
		tr.checkServerAlive("C13", out)
		sub.msgs = tr.msgs
		log := collectionLog(w.Log, "ns1", TypeA)
		live := !rec.Done
		if rec.Err != nil {
			// establishment itself may fail only if the script broke the very first attempt
			if script.WatchFail[1] == "" && !(script.OutageLen > 0 && script.OutageFrom <= 1) && !(len(script.Resets) > 0 && script.Resets[0].Stream == 1 && script.Resets[0].After < 0) {
				out.violate("C13/watch-call", "watch-error", "the Watch call failed without a fault on its establishment: %v", rec.Err)
			}
			return
		}
		sp := splitStream(rec)
		if sp.problem != "" {
			out.violate("C13/stream-shape", "shape:"+rec.Spec.Kind, "script %s: %s\nevents: %s", scriptString(script), sp.problem, renderEvents(rec.Events))
			return
		}
		id := ""
		if rec.Spec.Kind == "single" {
			id = rec.Spec.ID
		}
		// exactness: snapshot + contiguous continuation of the server's log for some establishment point
		okP := -1
		var why []string
		var matched []expectedEvent
		if rec.Spec.Tail > 0 {
			// tail start: the stream is a contiguous run of the (per-id) log that starts at most Tail events before the
			// establishment and, for a surviving watch, reaches the end of the log
			_, all := expectedFrom(log, 0, id)
			firstAfter := func(pos int) int {
				for i, x := range all {
					if x.LogIdx >= pos {
						return i
					}
				}
				return len(all)
			}
			lo, hi := max(0, firstAfter(rec.InvokeCommit)-rec.Spec.Tail), firstAfter(rec.RetCommit)
			for i := lo; i <= hi && okP < 0; i++ {
				if len(sp.data) > len(all)-i {
					continue
				}
				if live && !sp.errored && len(sp.data) != len(all)-i {
					continue
				}
				if bad := matchEvents(sp.data, all[i:i+len(sp.data)]); bad != "" {
					why = append(why, fmt.Sprintf("start=%d: %s", i, bad))
					continue
				}
				okP, matched = rec.InvokeCommit, all[i:]
			}
			if okP < 0 {
				why = append(why, fmt.Sprintf("no start in [%d,%d] of the %d-event log matches (tail %d)", lo, hi, len(all), rec.Spec.Tail))
			}
		}
		for p := rec.InvokeCommit; rec.Spec.Tail == 0 && p <= rec.RetCommit && p <= len(log); p++ {
			snapshot, exp := expectedFrom(log, p, id)
			if c.Sel != nil {
				snapshot, exp, _, _ = expectedFiltered(log, p, *c.Sel)
			}
			if sp.snapshotKnown {
				want := snapshot
				if id != "" {
					want = map[string]Snap{}
					if sn, ok := snapshot[id]; ok {
						want[id] = sn
					}
				}
				if !snapsEqual(want, sp.snapshot) {
					why = append(why, fmt.Sprintf("p=%d: snapshot %s != store %s", p, renderSnapMap(sp.snapshot), renderSnapMap(want)))
					continue
				}
			}
			if len(sp.data) > len(exp) {
				why = append(why, fmt.Sprintf("p=%d: %d events delivered, only %d commits followed", p, len(sp.data), len(exp)))
				continue
			}
			bad := ""
			for j, e := range sp.data {
				x := exp[j]
				if e.Type != x.Type || e.Snap != x.Snap || e.HasOld != x.HasOld || (x.HasOld && e.Old != x.Old) {
					bad = fmt.Sprintf("p=%d: event %d is %s, the server's log says %s(%s@%s val=%s)", p, j, e.String(), x.Type, x.Snap.ID, x.Snap.Version, x.Snap.Val)
					break
				}
			}
			if bad != "" {
				why = append(why, bad)
				continue
			}
			if live && !sp.errored && len(sp.data) != len(exp) {
				why = append(why, fmt.Sprintf("p=%d: the surviving watch has %d events at quiescence, %d commits followed its establishment (missing from %s)", p, len(sp.data), len(exp), describeExp(exp[len(sp.data):])))
				continue
			}
			okP = p
			matched = exp
			break
		}
		if okP < 0 {
			out.violate("C13/stream-exactness", "stream-mismatch:"+rec.Spec.Kind, "script %s: the client-side watch (%+v, established between commit %d and %d of %d) is not the server's log without loss, duplication or reordering:\n  %s\nevents: %s\nlog: %s",
				scriptString(script), rec.Spec, rec.InvokeCommit, rec.RetCommit, len(log), strings.Join(why, "\n  "), renderEvents(rec.Events), renderLog(log))
			return
		}
		sub.errored = sp.errored
		sub.resumed = (out.Faults["stream-reset"] > 0 || out.Faults["stream-ended-cleanly"] > 0) && !sp.errored && len(sp.data) > 0
		if sp.errored {
			// a terminal Errored needs a cause
			lastHadBookmark := false
			seenAny := false
			for _, e := range rec.Events {
				if e.Type == "Errored" {
					break
				}
				seenAny = true
				lastHadBookmark = len(e.Bookmark) > 0
			}
			behind := 0
			if len(sp.data) > 0 {
				behind = len(log) - (matched[len(sp.data)-1].LogIdx + 1)
			} else {
				behind = len(log) - okP
			}
			longOutage := erroredAt-firstFaultAt >= 14*time.Minute || script.OutageLen >= 20
			faulted := len(script.Resets) > 0 || len(script.WatchFail) > 0 || script.OutageLen > 0
			switch {
			case !faulted && rec.MaxLag == 0 && behind <= effInitial(c.Hist):
				out.violate("C13/errored-without-fault", "errored-without-fault", "script %s: the watch ended with Errored although no transport fault was injected\nevents: %s", scriptString(script), renderEvents(rec.Events))
			case script.NoRetry, !seenAny, !lastHadBookmark, longOutage:
				out.probe("errored-allowed")
			case behind >= effInitial(c.Hist)-c.Hist.effGap():
				out.probe("errored-bookmark-expired")
			default:
				out.violate("C13/errored-without-cause", "errored-without-cause:"+rec.Spec.Kind, "script %s: the watch ended with Errored although a bookmark had been seen (last event carried one), retries were enabled and not exhausted, and only %d commits (retained window %d) happened since the last delivered event\nevents: %s\nlog: %s",
					scriptString(script), behind, effInitial(c.Hist)-c.Hist.effGap(), renderEvents(rec.Events), renderLog(log))
			}
		}
		if trace {
			out.Notes = append(out.Notes, fmt.Sprintf("script %s: msgs=%d errored=%v events=%s", scriptString(script), tr.msgs, sp.errored, renderEvents(rec.Events)), "log: "+renderLog(log))
			out.Trace = s.Trace()
		}
		cancel()
		s.Settle(400000)
	})
	_ = firstFaultAt
	_ = erroredAt
	out.finish(st, panics, berr, true)
	sub.steps, sub.hash, sub.simtime, sub.switches = st.Steps, st.TraceHash, st.SimTime, st.Switches
	return sub
}

func (c13) Run(t *testing.T, cs Case, trace bool) *Outcome {
	c := cs.(*C13Case)
	total := &Outcome{}
	merge := func(sub *c13Sub) bool {
		total.Stats.Steps += sub.steps
		total.Stats.Switches += sub.switches
		total.Stats.SimTime += sub.simtime
		total.Stats.TraceHash = simrt.Mix(total.Stats.TraceHash, sub.hash)
		total.Stats.Quiescences += sub.out.Stats.Quiescences
		total.Stats.Tasks += sub.out.Stats.Tasks
		total.Stats.Adoptions += sub.out.Stats.Adoptions
		if total.Stats.SwitchPairs == nil {
			total.Stats.SwitchPairs = map[string]int{}
		}
		for k, v := range sub.out.Stats.SwitchPairs {
			total.Stats.SwitchPairs[k] += v
		}
		for k, v := range sub.out.Probes {
			total.probeN(k, v)
		}
		for k, v := range sub.out.Faults {
			if total.Faults == nil {
				total.Faults = map[string]int{}
			}
			total.Faults[k] += v
		}
		total.probe("subruns")
		if trace {
			total.Trace = append(total.Trace, sub.out.Trace...)
			total.Notes = append(total.Notes, sub.out.Notes...)
		}
		if sub.out.HarnessErr != "" {
			total.HarnessErr = sub.out.HarnessErr
			return false
		}
		if sub.out.Viol != nil {
			total.Viol = sub.out.Viol
			return false
		}
		return true
	}
	if c.Only != nil {
		merge(runC13Script(t, c, *c.Only, trace))
		return total
	}
	base := runC13Script(t, c, TransportFaults{}, trace)
	if !merge(base) {
		return total
	}
	// enumerate: every message index as reset point, alone and followed by failed re-establishments
	var scripts []TransportFaults
	for k := 0; k <= base.msgs; k++ {
		scripts = append(scripts, TransportFaults{Resets: []StreamFault{{Stream: 1, After: k}}})
		for m := 1; m <= 3; m++ {
			wf := map[int]string{}
			for a := 0; a < m; a++ {
				wf[2+a] = []string{"call", "first-recv"}[(k+a)%2]
			}
			scripts = append(scripts, TransportFaults{Resets: []StreamFault{{Stream: 1, After: k}}, WatchFail: wf})
		}
		// the stream does not break but ends cleanly at this point (io.EOF on the client): the watch must resume or
		// terminate with Errored all the same
		scripts = append(scripts, TransportFaults{Resets: []StreamFault{{Stream: 1, After: k, Clean: true}}})
		// the same reset, then the resumed stream is reset again right after its first message
		scripts = append(scripts, TransportFaults{Resets: []StreamFault{{Stream: 1, After: k}, {Stream: 2, After: 1}}})
	}
	// establishment faults
	scripts = append(scripts, TransportFaults{WatchFail: map[int]string{1: "first-recv"}}, TransportFaults{WatchFail: map[int]string{1: "call"}})
	// retries disabled
	scripts = append(scripts, TransportFaults{Resets: []StreamFault{{Stream: 1, After: base.msgs / 2}}, NoRetry: true})
	scripts = append(scripts, c.Extra...)
	if c.MaxScripts > 0 && len(scripts) > c.MaxScripts {
		// deterministic sample keeping the spread over k
		r := simrt.NewRNG(c.Seed ^ 0x5eed)
		perm := r.Perm(len(scripts))
		var pick []TransportFaults
		for _, i := range perm[:c.MaxScripts] {
			pick = append(pick, scripts[i])
		}
		scripts = pick
		total.probe("enumeration-sampled")
	} else {
		total.probe("enumeration-complete")
	}
	resumedChecked := false
	for i := range scripts {
		sub := runC13Script(t, c, scripts[i], trace)
		if sub.resumed {
			resumedChecked = true
			total.probe("resumed-stream-exact")
		}
		if sub.errored {
			total.probe("ended-errored")
		}
		if !merge(sub) {
			if total.Viol != nil {
				// make the replay small: remember the failing script
				f := scripts[i]
				c.Only = &f
			}
			return total
		}
	}
	total.Nontrivial = base.msgs >= 3 && resumedChecked
	return total
}
