package worlds

import (
	"context"
	"encoding/json"
	"fmt"
	"regexp"
	"strings"
	"testing"

	"github.com/cosi-project/runtime/pkg/controller/runtime/zzverif/simrt"
)

// ---------------------------------------------------------------------------
// C06 — transform / qtransform converge to the mapped image (DESIGN §7 C06)
// C07 — finalizer ordering safety on every prefix of the commit log (DESIGN §7 C07)

type c06 struct{}
type c07 struct{}

func init() { register(c06{}); register(c07{}) }

func (c06) ID() string { return "C06" }
func (c07) ID() string { return "C07" }

func (c06) Rule() string {
	return "case = tapped store + controller runtime + the real transform.Controller or qtransform.QController on harness types A->B (options: input finalizers, ignore-tearing-down, shared/exclusive output, concurrency, ignore-teardown-until/while, optional mapping), transform duration and a finite script of transient transform / finalizer-removal failures (error, requeue-with-error, requeue), the real destroy.Controller finishing unowned torn-down inputs + 2-4 external actors creating/updating/tearing down/re-creating inputs and placing/removing foreign finalizers on inputs and outputs + schedule policy; oracle at quiescence after the last fault; non-trivial = >=1 external commit landed while a reconcile was in flight and an output was created and later updated or destroyed; distinct = distinct scheduler trace hash"
}

func (c07) Rule() string {
	return "same world as C06 restricted to configurations with input finalizers, plus the real cleanup.Controller (RemoveOutputs / HasNoOutputs / Combine over label-selected dependents created by external actors); the safety invariants are evaluated on EVERY prefix of the totally ordered commit log; non-trivial = an owned output was destroyed or a controller finalizer was released during the run; distinct = distinct scheduler trace hash"
}

func tfComponents() (real, stub []string) {
	return []string{"pkg/controller/generic/transform, qtransform, cleanup, destroy", "pkg/controller/runtime and all internal/*", "pkg/safe", "pkg/state (wrap, owned)", "pkg/state/impl/inmem"},
		[]string{"Go scheduler choice (simrt)", "OS clock (synctest)", "zap (Nop)", "transform / finalizer-removal callbacks (harness, with injected transient faults)"}
}

func (c06) Components() (real, stub []string) { return tfComponents() }
func (c07) Components() (real, stub []string) { return tfComponents() }

func decodeTF(b []byte) (Case, error) {
	var c TFCase
	err := json.Unmarshal(b, &c)
	return &c, err
}

func (c06) Decode(b []byte) (Case, error) { return decodeTF(b) }
func (c07) Decode(b []byte) (Case, error) { return decodeTF(b) }

func genTFOps(r *simrt.RNG, actor, n, nids int, uniq *int, children bool) []TFOp {
	var ops []TFOp
	for i := 0; i < n; i++ {
		*uniq++
		op := TFOp{ID: fmt.Sprintf("r%d", r.Intn(nids)), Val: fmt.Sprintf("v%d_%d", actor, *uniq)}
		w := []int{4, 5, 3, 1, 2, 3, 2, 3, 0, 0}
		if children {
			w[8], w[9] = 3, 2
		}
		switch r.Pick(w) {
		case 0:
			op.Kind = "create"
		case 1:
			op.Kind = "update"
		case 2:
			op.Kind = "teardown"
		case 3:
			op.Kind = "destroy"
		case 4:
			op.Kind = "infin+"
			op.Fin = []string{"f1", "f2"}[r.Intn(2)]
		case 5:
			op.Kind = "infin-"
			op.Fin = []string{"f1", "f2"}[r.Intn(2)]
		case 6:
			op.Kind = "outfin+"
			op.Fin = "ext"
		case 7:
			op.Kind = "outfin-"
			op.Fin = "ext"
		case 8:
			op.Kind = "child+"
		case 9:
			op.Kind = "child-"
		}
		if r.Bool(0.5) {
			op.SleepMs = 1 + r.Intn(4000)
		}
		if op.Kind != "create" && op.Kind != "child+" && r.Bool(0.2) {
			op.After = []string{"out-td", "in-td", "out-created", "out-destroyed", "in-released"}[r.Intn(5)]
			op.SleepMs = 0
		}
		ops = append(ops, op)
	}
	return ops
}

func genTF(prop string, seed uint64, tier string) *TFCase {
	r := simrt.NewRNG(seed)
	c := &TFCase{Common: Common{Prop: prop, Seed: seed, Tier: tier}}
	if r.Bool(0.3) {
		for _, t := range []string{TypeA, TypeB} {
			if r.Bool(0.6) {
				c.RT.Cached = append(c.RT.Cached, t)
			}
		}
	}
	c.Flavour = []string{"transform", "qtransform"}[r.Intn(2)]
	c.Shared = r.Bool(0.2)
	c.OptionalMap = r.Bool(0.3)
	c.Destroyer = true
	if c.Flavour == "transform" {
		switch r.Pick([]int{5, 2, 2}) {
		case 0:
			c.InputFinalizers = true
		case 1:
			c.IgnoreTD = true
		}
	} else {
		c.Concurrency = r.Intn(4)
		switch r.Pick([]int{5, 2, 2}) {
		case 1:
			c.UseIgnoreUntil = true
			if r.Bool(0.5) {
				c.IgnoreUntil = []string{"f2"}
			}
		case 2:
			c.IgnoreWhile = []string{"f1"}
		}
	}
	if prop == "C07" {
		if c.Flavour == "transform" {
			c.InputFinalizers, c.IgnoreTD = true, false
		}
		c.Cleanup = []string{"", "remove", "hasno", "combine", "combine-rev"}[r.Pick([]int{2, 3, 2, 2, 2})]
	}
	if r.Bool(0.5) {
		c.TransformMs = 1 + r.Intn(2500)
	}
	if r.Bool(0.5) {
		c.FaultKind = []string{"error", "requeue-err", "requeue", "skip"}[r.Intn(4)]
		if c.Flavour == "transform" && c.FaultKind != "skip" {
			c.FaultKind = "error"
		}
		n := 1 + r.Intn(4)
		for i := 0; i < n; i++ {
			c.Faults = append(c.Faults, 1+r.Intn(12))
		}
		if r.Bool(0.3) {
			c.FinRemFaults = []int{1 + r.Intn(3)}
		}
	}
	nids := 1 + r.Intn(3)
	uniq := 0
	c.Pre = genTFOps(r, 9, r.Intn(4), nids, &uniq, false)
	for i := range c.Pre {
		c.Pre[i].SleepMs = 0
	}
	na := 2 + r.Intn(3)
	maxOps := 7
	if tier == "thorough" {
		maxOps = 12
	}
	for i := 0; i < na; i++ {
		c.Actors = append(c.Actors, genTFOps(r, i, 1+r.Intn(maxOps), nids, &uniq, c.Cleanup != ""))
	}
	c.Policy = genPolicy(r, []string{"rt/", "actor", "rt"})
	return c
}

func (c06) Gen(seed uint64, tier string) Case { return genTF("C06", seed, tier) }
func (c07) Gen(seed uint64, tier string) Case { return genTF("C07", seed, tier) }

func shrinkTF(cs Case) []Case {
	c := cs.(*TFCase)
	var out []Case
	if len(c.Actors) > 1 {
		for i := range c.Actors {
			n := cloneJSON(c)
			n.Actors = dropAt(n.Actors, i)
			out = append(out, n)
		}
	}
	for i := range c.Actors {
		for j := range c.Actors[i] {
			n := cloneJSON(c)
			n.Actors[i] = dropAt(n.Actors[i], j)
			out = append(out, n)
		}
	}
	for i := range c.Pre {
		n := cloneJSON(c)
		n.Pre = dropAt(n.Pre, i)
		out = append(out, n)
	}
	if len(c.Faults) > 0 {
		n := cloneJSON(c)
		n.Faults, n.FinRemFaults = nil, nil
		out = append(out, n)
	}
	if len(c.RT.Cached) > 0 {
		n := cloneJSON(c)
		n.RT.Cached = nil
		out = append(out, n)
	}
	if c.TransformMs != 0 {
		n := cloneJSON(c)
		n.TransformMs = 0
		out = append(out, n)
	}
	if c.Cleanup != "" {
		n := cloneJSON(c)
		n.Cleanup = ""
		out = append(out, n)
	}
	if c.Concurrency > 1 {
		n := cloneJSON(c)
		n.Concurrency = 1
		out = append(out, n)
	}
	if c.OptionalMap || c.Shared {
		n := cloneJSON(c)
		n.OptionalMap, n.Shared = false, false
		out = append(out, n)
	}
	for i := range c.Actors {
		for j, op := range c.Actors[i] {
			if op.SleepMs != 0 {
				n := cloneJSON(c)
				n.Actors[i][j].SleepMs = 0
				out = append(out, n)
			}
		}
	}
	if c.Policy.Kind != "walk" || c.Policy.SwitchProb != 0.2 || c.Policy.PermuteMaps || c.Policy.StarvePrefix != "" || c.Policy.PreemptProb != 0 {
		n := cloneJSON(c)
		n.Policy = simrt.Policy{Kind: "walk", SwitchProb: 0.2}
		out = append(out, n)
	}
	return out
}

func (c06) Shrink(cs Case) []Case { return shrinkTF(cs) }
func (c07) Shrink(cs Case) []Case { return shrinkTF(cs) }

func runTF(t *testing.T, cs Case, trace bool, prop string) *Outcome {
	c := cs.(*TFCase)
	out := &Outcome{}
	st, panics, berr := simrt.Run(t, simrt.Config{Seed: c.Seed, Policy: c.Policy, Trace: trace}, func(s *simrt.Sim) {
		rw, err := NewRuntimeWorld("inmem+tap", HistCfg{}, c.RT)
		if err != nil {
			out.HarnessErr = "runtime: " + err.Error()
			return
		}
		tw := &tfWorld{RuntimeWorld: rw, c: c, out: out}
		prevA := map[string]Snap{}
		rw.onCommit = func(cm Commit) {
			tw.fire(cm, prevA)
			if cm.Type == TypeA {
				if cm.Kind == "put" {
					prevA[cm.ID] = cm.Snap
				} else {
					delete(prevA, cm.ID)
				}
			}
		}
		ctx, cancel := context.WithCancel(context.Background())
		defer cancel()
		s.Spawn("pre", func() {
			for _, op := range c.Pre {
				tw.doOp(ctx, op, "pre")
			}
		})
		s.Settle(100000)
		if err := tw.registerControllers(); err != nil {
			out.HarnessErr = "register: " + err.Error()
			return
		}
		rw.Start(s, ctx)
		for i, ops := range c.Actors {
			name := fmt.Sprintf("actor%d", i)
			s.Spawn(name, func() {
				for _, op := range ops {
					tw.doOp(ctx, op, name)
				}
			})
		}
		if r := s.Settle(1000000); r != simrt.Quiescent {
			// the external actors are long done (their sleeps are bounded by seconds) and no fault is pending: a
			// system that is still busy after millions of steps / hours of virtual time does not converge
			if ps := s.Panics(); len(ps) > 0 {
				out.violate(prop+"/panic", "panic:"+firstLine(ps[0].Value), "task %s panicked: %s\n%s", ps[0].Task, ps[0].Value, ps[0].Stack)
				return
			}
			errs := rw.ErrorLogs(4)
			sig := "no-convergence"
			if len(errs) > 0 {
				sig += ":" + errSignature(errs[0])
			}
			out.violate(prop+"/no-convergence", sig, "the system never goes quiet: after %d scheduling steps and %v of virtual time controllers are still busy (live: %v)\ncontroller errors: %s\nlog: %s",
				s.Step(), s.Now(), s.Live(), strings.Join(errs, "\n  "), renderLogFull(rw.Log, ""))
			return
		}
		if ps := s.Panics(); len(ps) > 0 {
			out.violate(prop+"/panic", "panic:"+firstLine(ps[0].Value), "task %s panicked: %s\n%s", ps[0].Task, ps[0].Value, ps[0].Stack)
			return
		}
		if rw.RunReturned {
			out.violate(prop+"/runtime-stopped", "runtime-stopped", "Runtime.Run returned during the run: %v", rw.RunErr)
			return
		}
		inputs, err1 := currentContents(rw.Core, "ns1", TypeA)
		outputs, err2 := currentContents(rw.Core, "ns1", TypeB)
		if err1 != nil || err2 != nil {
			out.HarnessErr = "list at quiescence failed"
			return
		}
		out.probeN("transform-calls", tw.transformCalls)
		out.probeN("commits", len(rw.Log))
		outputCreated, outputDestroyed, finReleased := false, false, false
		for _, cm := range rw.Log {
			if cm.Type == TypeB && cm.Kind == "put" && cm.Snap.Version == "1" {
				outputCreated = true
			}
			if cm.Type == TypeB && cm.Kind == "destroy" {
				outputDestroyed = true
			}
			if cm.Type == TypeA && cm.Task != "" && len(cm.Task) > 2 && cm.Task[:3] == "rt/" && cm.Kind == "put" {
				finReleased = true
			}
		}
		if outputDestroyed {
			out.probe("output-destroyed")
		}
		if prop == "C06" {
			tfCheckConverged("C06", c, inputs, outputs, rw.Log, tw.lastSkip, out)
			out.Nontrivial = outputCreated && len(rw.Log) > 4
		} else {
			tfCheckPrefixes("C07", c, rw.Log, out)
			out.Nontrivial = outputCreated && (outputDestroyed || finReleased)
		}
		if trace {
			out.Trace = s.Trace()
			out.Notes = append(out.Notes, fmt.Sprintf("transform calls=%d finrem calls=%d", tw.transformCalls, tw.finRemCalls))
			out.Notes = append(out.Notes, "inputs: "+renderObs(inputs), "outputs: "+renderObs(outputs), "log: "+renderLogFull(rw.Log, ""))
		}
		cancel()
		s.Settle(500000)
	})
	out.finish(st, panics, berr, true)
	return out
}

func (c06) Run(t *testing.T, cs Case, trace bool) *Outcome { return runTF(t, cs, trace, "C06") }
func (c07) Run(t *testing.T, cs Case, trace bool) *Outcome { return runTF(t, cs, trace, "C07") }

var errSigRe = regexp.MustCompile(`[0-9]+|"[^"]*"|\([^)]*\)`)

// errSignature reduces an error message to its shape (numbers, quoted names and parenthesised ids removed).
func errSignature(msg string) string {
	if i := strings.Index(msg, "x "); i >= 0 && i < 6 {
		msg = msg[i+2:]
	}
	msg = errSigRe.ReplaceAllString(msg, "_")
	if len(msg) > 120 {
		msg = msg[:120]
	}
	return msg
}
