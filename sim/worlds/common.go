package worlds

import (
	"encoding/json"
	"fmt"
	"sort"
	"testing"
	"time"

	"github.com/cosi-project/runtime/pkg/controller/runtime/zzverif/simrt"
)

// Common is the part of a case shared by all properties.
type Common struct {
	Prop   string       `json:"prop"`
	Seed   uint64       `json:"seed"`
	Tier   string       `json:"tier,omitempty"`
	Policy simrt.Policy `json:"policy"`
}

// Case is a complete, replayable description of one simulated run.
type Case interface{ Base() *Common }

// Base implements Case.
func (c *Common) Base() *Common { return c }

// Violation is a property violation found by an oracle.
type Violation struct {
	Oracle string `json:"oracle"` // stable oracle id, e.g. "C01/linearizability"
	Msg    string `json:"msg"`
	// Signature identifies the failing input / call site / history class for known-finding matching.
	Signature string `json:"signature"`
}

// Outcome of one run.
type Outcome struct {
	Viol         *Violation
	Stats        simrt.Stats
	Probes       map[string]int
	Faults       map[string]int
	Nontrivial   bool
	Inconclusive int
	HarnessErr   string
	Trace        []string
	Notes        []string
}

func (o *Outcome) probe(name string) {
	if o.Probes == nil {
		o.Probes = map[string]int{}
	}
	o.Probes[name]++
}

func (o *Outcome) probeN(name string, n int) {
	if o.Probes == nil {
		o.Probes = map[string]int{}
	}
	o.Probes[name] += n
}

func (o *Outcome) fault(name string) {
	if o.Faults == nil {
		o.Faults = map[string]int{}
	}
	o.Faults[name]++
}

func (o *Outcome) violate(oracle, sig, format string, args ...any) {
	if o.Viol != nil {
		return
	}
	o.Viol = &Violation{Oracle: oracle, Signature: sig, Msg: fmt.Sprintf(format, args...)}
}

// Property is one checked property.
type Property interface {
	ID() string
	Gen(seed uint64, tier string) Case
	Run(t *testing.T, c Case, trace bool) *Outcome
	Decode(b []byte) (Case, error)
	// Shrink returns strictly smaller variants of c, most aggressive first.
	Shrink(c Case) []Case
	// Components lists what ran real and what was stubbed.
	Components() (real, stub []string)
	Rule() string
}

var registry = map[string]Property{}

func register(p Property) { registry[p.ID()] = p }

// genPolicy draws a schedule policy (swarm, DESIGN §2.3).
func genPolicy(r *simrt.RNG, taskPrefixes []string) simrt.Policy {
	var p simrt.Policy
	switch r.Pick([]int{6, 2, 1}) {
	case 0:
		p.Kind = "walk"
		p.SwitchProb = []float64{0.05, 0.2, 0.5, 1}[r.Intn(4)]
	case 1:
		p.Kind = "pct"
		p.PCTDepth = 1 + r.Intn(3)
		p.PCTSpan = 50 + r.Intn(400)
	default:
		p.Kind = "rr"
	}
	if len(taskPrefixes) > 0 && r.Bool(0.25) {
		p.StarvePrefix = taskPrefixes[r.Intn(len(taskPrefixes))]
		p.StarveFrom = int64(r.Intn(200))
		p.StarveSteps = int64(20 + r.Intn(400))
	}
	p.PermuteMaps = r.Bool(0.5)
	if r.Bool(0.3) {
		p.PreemptProb = []float64{0.05, 0.3}[r.Intn(2)]
	}
	return p
}

// dropAt returns a copy of s without element i.
func dropAt[T any](s []T, i int) []T {
	out := make([]T, 0, len(s)-1)
	out = append(out, s[:i]...)
	return append(out, s[i+1:]...)
}

func cloneJSON[T any](v T) T {
	b, err := json.Marshal(v)
	if err != nil {
		panic(err)
	}
	var out T
	if err := json.Unmarshal(b, &out); err != nil {
		panic(err)
	}
	return out
}

func sortedKeys[V any](m map[string]V) []string {
	ks := make([]string, 0, len(m))
	for k := range m {
		ks = append(ks, k)
	}
	sort.Strings(ks)
	return ks
}

// finish fills the outcome from the simulation results.
func (o *Outcome) finish(st simrt.Stats, panics []simrt.PanicInfo, berr string, allowLeak bool) {
	o.Stats = st
	if len(o.Trace) == 0 {
		o.Trace = st.Trace
	}
	o.Stats.Trace = nil
	if st.Adoptions > 0 {
		o.HarnessErr = fmt.Sprintf("unmanaged goroutine adopted %d times (determinism not guaranteed)", st.Adoptions)
	}
	if berr != "" && !allowLeak && o.Viol == nil && o.HarnessErr == "" {
		o.HarnessErr = "bubble: " + berr
	}
	_ = panics
}

const second = time.Second
