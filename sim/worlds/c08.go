package worlds

import (
	"context"
	"encoding/json"
	"fmt"
	"strings"
	"testing"

	"github.com/cosi-project/runtime/pkg/controller"
	"github.com/cosi-project/runtime/pkg/controller/runtime/zzverif/simrt"
	"github.com/cosi-project/runtime/pkg/resource"
	"github.com/cosi-project/runtime/pkg/state"
)

// ---------------------------------------------------------------------------
// C08 — controllers are confined to declared inputs/outputs and resources they own (DESIGN §7 C08)

// AttackCall is one runtime-API call of an attacker controller.
type AttackCall struct {
	Op    string `json:"op"` // get getu list listu ctxtd create create-noowner update modify modify-noowner teardown teardown-owner destroy destroy-owner addfin remfin
	Type  string `json:"type"`
	ID    string `json:"id,omitempty"`
	Owner string `json:"owner,omitempty"` // for *-owner variants
	Val   string `json:"val,omitempty"`
	// update-inputs: the new input declaration (plain controllers); valid or not
	Inputs []InputSpec `json:"inputs,omitempty"`
}

// PreRes is a pre-existing resource.
type PreRes struct {
	Type  string `json:"type"`
	ID    string `json:"id"`
	Owner string `json:"owner,omitempty"`
	TD    bool   `json:"td,omitempty"`
	Fin   string `json:"fin,omitempty"`
}

// Attacker is an attacker controller.
type Attacker struct {
	Spec  ProbeSpec    `json:"spec"`
	Calls []AttackCall `json:"calls"`
	// Workers > 1: the calls are issued by this many concurrent tasks sharing the controller's runtime handle
	Workers int `json:"workers,omitempty"`
}

// C08Case is a C08 run.
type C08Case struct {
	Common
	RT        RuntimeOpts `json:"rt"`
	Pre       []PreRes    `json:"pre"`
	Attackers []Attacker  `json:"attackers"`
}

type c08 struct{}

func init() { register(c08{}) }

func (c08) ID() string { return "C08" }

func (c08) Rule() string {
	return "case = controller runtime (random subset of kinds served from the cache) + a store pre-populated with resources owned by nobody, by the attacker and by others (some tearing down, some with finalizers) + 1-2 attacker controllers of both flavours with random input/output declarations over 3 types x {by kind, 2 ids} x all input kinds, each firing <=30 random runtime-API calls (Get/List/ContextWithTeardown and uncached variants, Create/Update/Modify/Teardown/Destroy with and without explicit owner or no-owner options, Add/RemoveFinalizer) at random targets; every call is judged by an access model written from the property statement: denied calls must fail without any commit attributed to the attacker, allowed calls must not be refused by the access check, nothing owned by someone else changes unless its owner is named, created resources carry the controller's name; non-trivial = >=1 denied and >=1 allowed call of both read and write kind; distinct = distinct (declarations, calls, schedule) hash; coverage cells op x declared-relation x owner-relation x flavour x cached are counted as probes"
}

func (c08) Components() (real, stub []string) {
	return []string{"internal/controllerstate (access checks)", "pkg/state/owned", "internal/rruntime, internal/qruntime (runtime API surfaces)", "internal/cache", "pkg/state/impl/inmem"},
		[]string{"Go scheduler choice (simrt)", "OS clock (synctest)", "attacker controller bodies (harness)"}
}

func (c08) Decode(b []byte) (Case, error) {
	var c C08Case
	err := json.Unmarshal(b, &c)
	return &c, err
}

var attackOps = []string{"get", "getu", "list", "listu", "ctxtd", "create", "create-noowner", "update", "modify", "modify-noowner", "teardown", "teardown-owner", "destroy", "destroy-owner", "addfin", "remfin"}

func (c08) Gen(seed uint64, tier string) Case {
	r := simrt.NewRNG(seed)
	c := &C08Case{Common: Common{Prop: "C08", Seed: seed, Tier: tier}}
	types := []string{TypeA, TypeB, TypeC}
	for _, t := range types {
		if r.Bool(0.4) {
			c.RT.Cached = append(c.RT.Cached, t)
		}
	}
	na := 1 + r.Intn(2)
	var names []string
	for i := 0; i < na; i++ {
		names = append(names, fmt.Sprintf("att%d", i))
	}
	ownersPool := append([]string{"", "other"}, names...)
	for _, t := range types {
		for _, id := range []string{"r0", "r1"} {
			if r.Bool(0.8) {
				p := PreRes{Type: t, ID: id, Owner: ownersPool[r.Intn(len(ownersPool))], TD: r.Bool(0.3)}
				if r.Bool(0.3) {
					p.Fin = "f1"
				}
				c.Pre = append(c.Pre, p)
			}
		}
	}
	for i := 0; i < na; i++ {
		q := r.Bool(0.45)
		ins, outs := genDecl(r, q, false)
		// outputs of two attackers must not clash on exclusivity: keep them shared for the second one
		if i > 0 {
			for k := range outs {
				outs[k].Kind = "shared"
			}
			// and drop types the first attacker claims exclusively
			var keep []OutputSpec
			for _, o := range outs {
				clash := false
				for _, o0 := range c.Attackers[0].Spec.Outputs {
					if o0.Type == o.Type {
						clash = true
					}
				}
				if !clash {
					keep = append(keep, o)
				}
			}
			outs = keep
		}
		// one input per (type, id): duplicate declarations are rejected at registration (C17's subject)
		seenIn := map[string]bool{}
		var ui []InputSpec
		for _, in := range ins {
			if !seenIn[in.Type+"/"+in.ID] {
				seenIn[in.Type+"/"+in.ID] = true
				ui = append(ui, in)
			}
		}
		ins = ui
		// de-duplicate outputs by type
		seen := map[string]bool{}
		var uo []OutputSpec
		for _, o := range outs {
			if !seen[o.Type] {
				seen[o.Type] = true
				uo = append(uo, o)
			}
		}
		a := Attacker{Spec: ProbeSpec{Name: names[i], Q: q, Inputs: ins, Outputs: uo, RegisterMs: -1, Concurrency: 1}}
		n := 8 + r.Intn(22)
		if tier == "thorough" {
			n = 8 + r.Intn(52)
		}
		for k := 0; k < n; k++ {
			call := AttackCall{Op: attackOps[r.Intn(len(attackOps))], Type: types[r.Intn(3)], ID: []string{"r0", "r1", "new"}[r.Pick([]int{3, 3, 1})], Val: fmt.Sprintf("a%d_%d", i, k)}
			call.Owner = ownersPool[r.Intn(len(ownersPool))]
			a.Calls = append(a.Calls, call)
		}
		if r.Bool(0.4) {
			a.Workers = 2 + r.Intn(2)
			if len(uo) > 0 && r.Bool(0.6) {
				// write-heavy burst on the declared outputs: concurrent callers meet inside the same helpers
				focus := []string{"modify", "modify-noowner", "modify", "modify-noowner", "create", "create-noowner", "update", "destroy", "teardown", "destroy-owner"}
				for k := range a.Calls {
					a.Calls[k].Op = focus[r.Intn(len(focus))]
					a.Calls[k].Type = uo[r.Intn(len(uo))].Type
					a.Calls[k].ID = []string{"r0", "r1", "new", "new"}[r.Intn(4)]
				}
			}
		} else if !q {
			// sequential plain attacker: re-declare the inputs on the way, validly or not (a rejected declaration must
			// not change what the controller may access)
			for k := 0; k < 1+r.Intn(2); k++ {
				nins, _ := genDecl(r, false, r.Bool(0.6))
				if r.Bool(0.5) {
					// everything it could wish for, plus one entry that makes the declaration invalid
					nins = []InputSpec{{Type: TypeA, Kind: "strong"}, {Type: TypeB, Kind: "strong"}, {Type: TypeC, Kind: "strong"}, {Type: TypeC, Kind: "weak"}}
				}
				pos := r.Intn(len(a.Calls) + 1)
				call := AttackCall{Op: "update-inputs", Inputs: nins}
				a.Calls = append(a.Calls[:pos], append([]AttackCall{call}, a.Calls[pos:]...)...)
			}
		}
		c.Attackers = append(c.Attackers, a)
	}
	c.Policy = genPolicy(r, []string{"rt/"})
	return c
}

func (c08) Shrink(cs Case) []Case {
	c := cs.(*C08Case)
	var out []Case
	if len(c.Attackers) > 1 {
		for i := range c.Attackers {
			n := cloneJSON(c)
			n.Attackers = dropAt(n.Attackers, i)
			out = append(out, n)
		}
	}
	for i := range c.Attackers {
		if l := len(c.Attackers[i].Calls); l > 3 {
			n := cloneJSON(c)
			n.Attackers[i].Calls = n.Attackers[i].Calls[:l/2]
			out = append(out, n)
			n2 := cloneJSON(c)
			n2.Attackers[i].Calls = n2.Attackers[i].Calls[l/2:]
			out = append(out, n2)
		}
		for j := range c.Attackers[i].Calls {
			n := cloneJSON(c)
			n.Attackers[i].Calls = dropAt(n.Attackers[i].Calls, j)
			out = append(out, n)
		}
		for j := range c.Attackers[i].Spec.Inputs {
			if len(c.Attackers[i].Spec.Inputs) > 1 && c.Attackers[i].Spec.Inputs[j].Kind != "qprimary" {
				n := cloneJSON(c)
				n.Attackers[i].Spec.Inputs = dropAt(n.Attackers[i].Spec.Inputs, j)
				out = append(out, n)
			}
		}
		for j := range c.Attackers[i].Spec.Outputs {
			n := cloneJSON(c)
			n.Attackers[i].Spec.Outputs = dropAt(n.Attackers[i].Spec.Outputs, j)
			out = append(out, n)
		}
	}
	for i := range c.Pre {
		n := cloneJSON(c)
		n.Pre = dropAt(n.Pre, i)
		out = append(out, n)
	}
	if len(c.RT.Cached) > 0 {
		n := cloneJSON(c)
		n.RT.Cached = nil
		out = append(out, n)
	}
	if c.Policy.Kind != "walk" || c.Policy.SwitchProb != 0.2 || c.Policy.PermuteMaps || c.Policy.StarvePrefix != "" || c.Policy.PreemptProb != 0 {
		n := cloneJSON(c)
		n.Policy = simrt.Policy{Kind: "walk", SwitchProb: 0.2}
		out = append(out, n)
	}
	return out
}

// ---- the access model, written from the property statement

func isOutputOf(spec ProbeSpec, typ string) bool {
	for _, o := range spec.Outputs {
		if o.Type == typ {
			return true
		}
	}
	return false
}

// mayRead: declared inputs (matching by kind or by id) and outputs.
func mayRead(spec ProbeSpec, typ, id string, whole bool) bool {
	if isOutputOf(spec, typ) {
		return true
	}
	for _, in := range spec.Inputs {
		if in.Type != typ {
			continue
		}
		if in.ID == "" {
			return true
		}
		if !whole && in.ID == id {
			return true
		}
	}
	return false
}

// mayFinalize: strong (or queue primary/mapped) inputs only.
func mayFinalize(spec ProbeSpec, typ, id string) bool {
	for _, in := range spec.Inputs {
		if in.Type != typ || (in.ID != "" && in.ID != id) {
			continue
		}
		if in.Kind == "strong" || in.Kind == "qprimary" || in.Kind == "qmapped" {
			return true
		}
	}
	return false
}

func isAccessDenial(err error) bool {
	if err == nil {
		return false
	}
	m := err.Error()
	return strings.Contains(m, "not input or output for controller") || strings.Contains(m, "is not an output for controller") || strings.Contains(m, "attempt to change finalizers")
}

type attackRec struct {
	Att         string
	Call        AttackCall
	Invoke, Ret int
	Task        string
	Err         error
	PreOwner    string
	PreExists   bool
}

func (c08) Run(t *testing.T, cs Case, trace bool) *Outcome {
	c := cs.(*C08Case)
	out := &Outcome{}
	var recs []*attackRec
	st, panics, berr := simrt.Run(t, simrt.Config{Seed: c.Seed, Policy: c.Policy, Trace: trace}, func(s *simrt.Sim) {
		w, err := NewRuntimeWorld("inmem+tap", HistCfg{}, c.RT, out)
		if err != nil {
			out.HarnessErr = err.Error()
			return
		}
		ctx, cancel := context.WithCancel(context.Background())
		defer cancel()
		for _, p := range c.Pre {
			r := NewRes("ns1", p.Type, p.ID, "pre")
			if p.Fin != "" {
				r.Metadata().Finalizers().Add(p.Fin)
			}
			if err := w.St.Create(ctx, r, state.WithCreateOwner(p.Owner)); err != nil {
				out.HarnessErr = err.Error()
				return
			}
			if p.TD {
				if _, err := w.St.Teardown(ctx, r.Metadata(), state.WithTeardownOwner(p.Owner)); err != nil {
					out.HarnessErr = err.Error()
					return
				}
			}
		}
		cachedSet := map[string]bool{}
		for _, t := range c.RT.Cached {
			cachedSet[t] = true
		}
		attackCalls := func(a Attacker, calls []AttackCall, rd controller.Reader, ur controller.UncachedReader, wrt controller.Writer, ui func([]controller.Input) error) {
			for _, call := range calls {
				simrt.Yield("attack")
				ptr := resource.NewMetadata("ns1", call.Type, call.ID, resource.VersionUndefined)
				rec := &attackRec{Att: a.Spec.Name, Call: call, Invoke: len(w.Log), Task: simrt.Me()}
				// what the target looks like right now (only the attackers write: they run one call at a time per task)
				if cur, err := w.Core.Get(ctx, ptr); err == nil {
					rec.PreExists, rec.PreOwner = true, cur.Metadata().Owner()
				}
				rec.Invoke = len(w.Log)
				switch call.Op {
				case "get":
					_, rec.Err = rd.Get(ctx, ptr)
				case "getu":
					_, rec.Err = ur.GetUncached(ctx, ptr)
				case "list":
					_, rec.Err = rd.List(ctx, ptr)
				case "listu":
					_, rec.Err = ur.ListUncached(ctx, ptr)
				case "ctxtd":
					_, rec.Err = rd.ContextWithTeardown(ctx, ptr)
				case "create":
					rec.Err = wrt.Create(ctx, NewRes("ns1", call.Type, call.ID, call.Val))
				case "create-noowner":
					rec.Err = wrt.Create(ctx, NewRes("ns1", call.Type, call.ID, call.Val), controller.WithCreateNoOwner())
				case "update":
					cur, err := w.Core.Get(ctx, ptr)
					if err != nil {
						cur = NewRes("ns1", call.Type, call.ID, call.Val)
					}
					SpecOf(cur).Val = call.Val
					rec.Invoke = len(w.Log)
					rec.Err = wrt.Update(ctx, cur)
				case "modify":
					rec.Err = wrt.Modify(ctx, NewRes("ns1", call.Type, call.ID, ""), func(r resource.Resource) error {
						SpecOf(r).Val = call.Val
						return nil
					}, controller.WithExpectedPhaseAny())
				case "modify-noowner":
					rec.Err = wrt.Modify(ctx, NewRes("ns1", call.Type, call.ID, ""), func(r resource.Resource) error {
						SpecOf(r).Val = call.Val
						return nil
					}, controller.WithExpectedPhaseAny(), controller.WithModifyNoOwner())
				case "teardown":
					_, rec.Err = wrt.Teardown(ctx, ptr)
				case "teardown-owner":
					_, rec.Err = wrt.Teardown(ctx, ptr, controller.WithOwner(call.Owner))
				case "destroy":
					rec.Err = wrt.Destroy(ctx, ptr)
				case "destroy-owner":
					rec.Err = wrt.Destroy(ctx, ptr, controller.WithOwner(call.Owner))
				case "addfin":
					rec.Err = wrt.AddFinalizer(ctx, ptr, "att-"+a.Spec.Name)
				case "remfin":
					rec.Err = wrt.RemoveFinalizer(ctx, ptr, "f1")
				case "update-inputs":
					if ui == nil {
						continue
					}
					rec.Err = ui(toInputs(call.Inputs))
				}
				rec.Ret = len(w.Log)
				recs = append(recs, rec)
			}
		}
		attack := func(a Attacker, rd controller.Reader, ur controller.UncachedReader, wrt controller.Writer, ui func([]controller.Input) error) {
			if a.Workers <= 1 {
				attackCalls(a, a.Calls, rd, ur, wrt, ui)
				return
			}
			out.fault("attack:concurrent-callers-on-one-runtime(run)")
			var dones []chan struct{}
			for k := 0; k < a.Workers; k++ {
				var mine []AttackCall
				for j, call := range a.Calls {
					if j%a.Workers == k {
						mine = append(mine, call)
					}
				}
				done := make(chan struct{})
				dones = append(dones, done)
				simrt.Go("attack-worker", func() {
					defer close(done)
					attackCalls(a, mine, rd, ur, wrt, nil)
				})
			}
			for _, d := range dones {
				simrt.ChanRecv("attack.join", d)
			}
		}
		for _, a := range c.Attackers {
			a := a
			p := NewProbe(a.Spec, w, out)
			done := false
			if a.Spec.Q {
				p.runHookRT = func(hctx context.Context, r controller.QRuntime) error {
					if !done {
						done = true
						attack(a, r, r, r, nil)
					}
					simrt.ChanRecv("attacker.block", hctx.Done())
					return nil
				}
			} else {
				p.onReconcile = func(_ *Probe, r controller.Runtime) error {
					if !done {
						done = true
						attack(a, r, r, r, r.UpdateInputs)
					}
					return nil
				}
			}
			if err := p.Register(); err != nil {
				out.HarnessErr = fmt.Sprintf("register %s: %v", a.Spec.Name, err)
				return
			}
		}
		w.Start(s, ctx)
		if r := s.Settle(1000000); r != simrt.Quiescent {
			out.HarnessErr = fmt.Sprintf("C08 run did not become quiescent: %v live=%v", r, s.Live())
			return
		}
		if ps := s.Panics(); len(ps) > 0 {
			out.violate("C08/panic", "panic:"+firstLine(ps[0].Value), "task %s panicked: %s\n%s", ps[0].Task, ps[0].Value, ps[0].Stack)
			return
		}
		specOf := map[string]ProbeSpec{}
		for _, a := range c.Attackers {
			specOf[a.Spec.Name] = a.Spec
		}
		var deniedR, allowedR, deniedW, allowedW int
		// owner of every resource right before each commit (the log is totally ordered: exact under concurrency)
		prevOwner := make([]string, len(w.Log))
		prevExists := make([]bool, len(w.Log))
		{
			cur := map[string]Snap{}
			for i, cm := range w.Log {
				k := cm.Type + "/" + cm.ID
				if p, ok := cur[k]; ok {
					prevOwner[i], prevExists[i] = p.Owner, true
				}
				if cm.Kind == "put" {
					cur[k] = cm.Snap
				} else {
					delete(cur, k)
				}
			}
		}
		for _, rec := range recs {
			spec := specOf[rec.Att]
			call := rec.Call
			var mine []Commit
			var mineIdx []int
			for i := rec.Invoke; i < rec.Ret && i < len(w.Log); i++ {
				if w.Log[i].Task == rec.Task {
					mine = append(mine, w.Log[i])
					mineIdx = append(mineIdx, i)
				}
			}
			if call.Op == "update-inputs" {
				why := validKinds(false, call.Inputs)
				if (rec.Err == nil) != (why == "") {
					out.violate("C08/update-inputs", "update-inputs-acceptance", "controller %s: UpdateInputs(%v) returned %v, the declaration is %s", rec.Att, call.Inputs, rec.Err, map[bool]string{true: "valid", false: "invalid: " + why}[why == ""])
					return
				}
				if rec.Err == nil {
					spec.Inputs = append([]InputSpec{}, call.Inputs...)
					specOf[rec.Att] = spec
					out.probe("inputs-redeclared")
				} else {
					out.fault("attack:invalid-input-redeclaration")
				}
				continue
			}
			desc := fmt.Sprintf("controller %s (q=%v inputs=%v outputs=%v) call %s %s/%s owner-opt=%q -> %v; target before: exists=%v owner=%q", rec.Att, spec.Q, spec.Inputs, spec.Outputs, call.Op, call.Type, call.ID, call.Owner, rec.Err, rec.PreExists, rec.PreOwner)
			fail := func(sig, format string, args ...any) {
				out.violate("C08/"+sig, sig+":"+call.Op, "%s: %s\ncommits by the controller during the call: %s", desc, fmt.Sprintf(format, args...), renderLogFull(mine, ""))
			}
			var allowed bool
			kind := "read"
			switch call.Op {
			case "get", "getu", "ctxtd":
				allowed = mayRead(spec, call.Type, call.ID, false)
			case "list", "listu":
				allowed = mayRead(spec, call.Type, "", true)
			case "addfin", "remfin":
				allowed = mayFinalize(spec, call.Type, call.ID)
				kind = "write"
			default:
				allowed = isOutputOf(spec, call.Type)
				kind = "write"
			}
			rel := "undeclared"
			if allowed {
				rel = "declared"
			}
			ownerRel := "absent"
			if rec.PreExists {
				switch rec.PreOwner {
				case "":
					ownerRel = "unowned"
				case rec.Att:
					ownerRel = "own"
				default:
					ownerRel = "foreign"
				}
			}
			out.probe(fmt.Sprintf("cell:%s/%s/%s/q=%v/cached=%v", call.Op, rel, ownerRel, spec.Q, cachedSet[call.Type]))
			if rec.Err != nil && len(mine) > 0 && !(call.Op == "remfin") {
				fail("rejected-had-effect", "a rejected operation committed %d write(s)", len(mine))
				return
			}
			if !allowed {
				out.fault("attack:call-outside-declarations:" + kind)
				if kind == "read" {
					deniedR++
				} else {
					deniedW++
				}
				if rec.Err == nil {
					fail("confinement", "the call is outside the controller's declarations but succeeded")
					return
				}
				if len(mine) > 0 {
					fail("confinement", "the call is outside the controller's declarations and changed the state")
					return
				}
				continue
			}
			if kind == "read" {
				allowedR++
			} else {
				allowedW++
			}
			if isAccessDenial(rec.Err) {
				fail("over-restriction", "the call is within the controller's declarations but was refused by the access check")
				return
			}
			// ownership: nobody else's resource changes unless its owner is named explicitly
			if kind == "write" && rec.PreExists && ownerRel == "foreign" {
				out.fault("attack:write-to-foreign-resource")
			}
			if kind == "write" && call.Op != "addfin" && call.Op != "remfin" { // finalizers are not subject to ownership
				named := rec.Att
				switch call.Op {
				case "teardown-owner", "destroy-owner":
					named = call.Owner
				case "modify-noowner", "create-noowner":
					named = ""
				}
				for _, i := range mineIdx {
					if prevExists[i] && prevOwner[i] != named {
						fail("ownership", "commit %d changed a resource that was owned by %q at that moment, while the controller acted as %q", i, prevOwner[i], named)
						return
					}
				}
			}
			// resources it creates carry its name
			for _, cm := range mine {
				if cm.Kind == "put" && cm.Snap.Version == "1" {
					want := rec.Att
					if call.Op == "create-noowner" || call.Op == "modify-noowner" {
						want = ""
					}
					if cm.Snap.Owner != want {
						fail("owner-stamp", "the created resource is owned by %q, expected %q", cm.Snap.Owner, want)
						return
					}
					out.probe("created-owner-checked")
				}
			}
		}
		out.Nontrivial = deniedR > 0 && allowedR > 0 && deniedW > 0 && allowedW > 0
		out.probeN("calls", len(recs))
		if trace {
			out.Trace = s.Trace()
			for _, rec := range recs {
				out.Notes = append(out.Notes, fmt.Sprintf("%s %+v [%d,%d] err=%v pre=%v/%q", rec.Att, rec.Call, rec.Invoke, rec.Ret, rec.Err, rec.PreExists, rec.PreOwner))
			}
		}
		cancel()
		s.Settle(500000)
	})
	out.finish(st, panics, berr, true)
	return out
}
