package worlds

import (
	"bytes"
	"encoding/json"
	"fmt"
	"sort"
	"strings"
	"testing"

	"github.com/ProtonMail/gopenpgp/v2/helper"

	"github.com/cosi-project/runtime/api/key_storage"
	"github.com/cosi-project/runtime/pkg/controller/runtime/zzverif/simrt"
	"github.com/cosi-project/runtime/pkg/keystorage"
)

// ---------------------------------------------------------------------------
// C20 — key storage: master key recoverable via live slots only; tampering detected (DESIGN §7 C20)

// KSCorruption is one alteration of the serialized storage behind the API's back.
type KSCorruption struct {
	Kind  string `json:"kind"` // blob-flip blob-trunc blob-append blob-swap blob-reencrypt blob-empty slot-add-copy slot-add-attacker slot-add-random slot-add-empty slot-remove hmac-flip hmac-trunc hmac-extend hmac-empty
	Slot  string `json:"slot,omitempty"`
	Other string `json:"other,omitempty"`
	Pos   int    `json:"pos,omitempty"`
	Bit   int    `json:"bit,omitempty"`
	Key   int    `json:"key,omitempty"`
	Next  []KSOp `json:"next,omitempty"` // operations run on the corrupted storage: every one must fail
}

// KSOp is one operation on the key storage.
type KSOp struct {
	Op      string        `json:"op"` // init add del get snap restore corrupt race
	Slot    string        `json:"slot,omitempty"`
	Key     int           `json:"key,omitempty"`
	New     string        `json:"new,omitempty"`
	NewKey  int           `json:"new_key,omitempty"`
	NewKey2 int           `json:"new_key2,omitempty"` // race: the second concurrent AddKeySlot of the same new slot id
	Snap    int           `json:"snap,omitempty"`
	Fresh   bool          `json:"fresh,omitempty"`
	Corr    *KSCorruption `json:"corr,omitempty"`
}

// C20Case is a C20 run.
type C20Case struct {
	Common
	Ops []KSOp `json:"ops"`
}

type c20 struct{}

func init() { register(c20{}) }

func (c20) ID() string { return "C20" }

func (c20) Rule() string {
	return "case = <=14 operations Initialize / AddKeySlot / DeleteKeySlot / GetMasterKey / MarshalBinary snapshot / UnmarshalBinary of any earlier snapshot (into the same or a fresh storage) over 4 slot ids and 5 x25519 key pairs with right, wrong and dead credentials, plus <=4 single-field corruptions of the serialized form (encrypted blob flipped/truncated/extended/swapped/re-encrypted/emptied, slot added as copy/attacker-encrypted/random/empty or removed, integrity tag flipped/truncated/extended/emptied) each followed by 1-3 retrievals (get/add/delete) that must all fail; after every operation all slots are audited against a live-slot model (live slot + its key -> the original master key; dead slot or wrong key -> error); non-trivial = >=2 successful slot changes, >=1 unmarshal and >=1 corruption exercised; distinct = distinct operation-sequence hash; mostly one task (plus an operation in which two tasks add the same new slot id concurrently: exactly one may win), no clock: the fault dimension is stored-form corruption between marshal and unmarshal, including a planted slot whose empty key field is present on the wire"
}

func (c20) Components() (real, stub []string) {
	return []string{"pkg/keystorage", "api/key_storage (vtproto marshal/unmarshal)", "gopenpgp (x25519 + AES-GCM)"},
		[]string{"the disk between MarshalBinary and UnmarshalBinary (byte slice, corrupted by the harness)"}
}

func (c20) Decode(b []byte) (Case, error) {
	var c C20Case
	err := json.Unmarshal(b, &c)
	return &c, err
}

var ksSlots = []string{"s0", "s1", "s2", "s3"}

const ksKeys = 5

var ksCorruptions = []string{"slot-add-empty-wire", "blob-flip", "blob-trunc", "blob-append", "blob-swap", "blob-reencrypt", "blob-empty", "slot-add-copy", "slot-add-attacker", "slot-add-random", "slot-add-empty", "slot-remove", "hmac-flip", "hmac-trunc", "hmac-extend", "hmac-empty"}

func (c20) Gen(seed uint64, tier string) Case {
	r := simrt.NewRNG(seed)
	c := &C20Case{Common: Common{Prop: "C20", Seed: seed, Tier: tier, Policy: simrt.Policy{Kind: "walk", SwitchProb: 0.2}}}
	live := map[string]int{}
	inited := false
	nsnap := 0
	var snapLive []map[string]int
	n := 7 + r.Intn(8)
	maxCorr := 4
	if tier == "thorough" {
		n = 7 + r.Intn(20)
		maxCorr = 8
	}
	ncorr := 0
	pickLive := func() (string, int, bool) {
		ks := sortedKeys(live)
		if len(ks) == 0 {
			return "", 0, false
		}
		s := ks[r.Intn(len(ks))]
		return s, live[s], true
	}
	for i := 0; i < n; i++ {
		if !inited && r.Bool(0.8) {
			op := KSOp{Op: "init", Slot: ksSlots[r.Intn(4)], Key: r.Intn(ksKeys)}
			c.Ops = append(c.Ops, op)
			inited = true
			live[op.Slot] = op.Key
			continue
		}
		if inited && r.Bool(0.08) {
			// two callers add the same new slot at the same time
			s, k, _ := pickLive()
			op := KSOp{Op: "race", New: ksSlots[r.Intn(4)], NewKey: r.Intn(ksKeys), Slot: s, Key: k}
			op.NewKey2 = (op.NewKey + 1 + r.Intn(ksKeys-1)) % ksKeys
			c.Ops = append(c.Ops, op)
			// which of the two wins is up to the schedule: later operations of this case use the slot with either key
			// (the run-time model knows the winner)
			continue
		}
		switch r.Pick([]int{1, 5, 3, 2, 3, 3, 4}) {
		case 0:
			c.Ops = append(c.Ops, KSOp{Op: "init", Slot: ksSlots[r.Intn(4)], Key: r.Intn(ksKeys)})
		case 1:
			op := KSOp{Op: "add", New: ksSlots[r.Intn(4)], NewKey: r.Intn(ksKeys)}
			s, k, ok := pickLive()
			switch {
			case !ok || r.Bool(0.15):
				op.Slot, op.Key = ksSlots[r.Intn(4)], r.Intn(ksKeys)
			case r.Bool(0.1):
				op.Slot, op.Key = s, (k+1+r.Intn(ksKeys-1))%ksKeys
			default:
				op.Slot, op.Key = s, k
			}
			c.Ops = append(c.Ops, op)
			if _, exists := live[op.New]; !exists && inited {
				if k2, ok := live[op.Slot]; ok && k2 == op.Key {
					live[op.New] = op.NewKey
				}
			}
		case 2:
			op := KSOp{Op: "del"}
			s, k, ok := pickLive()
			switch {
			case !ok || r.Bool(0.15):
				op.Slot, op.Key = ksSlots[r.Intn(4)], r.Intn(ksKeys)
			case r.Bool(0.1):
				op.Slot, op.Key = s, (k+1+r.Intn(ksKeys-1))%ksKeys
			default:
				op.Slot, op.Key = s, k
			}
			c.Ops = append(c.Ops, op)
			if k2, ok := live[op.Slot]; ok && k2 == op.Key && len(live) > 1 {
				delete(live, op.Slot)
			}
		case 3:
			c.Ops = append(c.Ops, KSOp{Op: "get", Slot: ksSlots[r.Intn(4)], Key: r.Intn(ksKeys)})
		case 4:
			if inited {
				c.Ops = append(c.Ops, KSOp{Op: "snap"})
				nsnap++
				cp := map[string]int{}
				for k, v := range live {
					cp[k] = v
				}
				snapLive = append(snapLive, cp)
			}
		case 5:
			if nsnap > 0 {
				op := KSOp{Op: "restore", Snap: r.Intn(nsnap), Fresh: r.Bool(0.5)}
				c.Ops = append(c.Ops, op)
				live = map[string]int{}
				for k, v := range snapLive[op.Snap] {
					live[k] = v
				}
				inited = true
			}
		case 6:
			if !inited || ncorr >= maxCorr {
				continue
			}
			ncorr++
			co := &KSCorruption{Kind: ksCorruptions[r.Intn(len(ksCorruptions))], Pos: r.Intn(4096), Bit: r.Intn(8), Key: r.Intn(ksKeys)}
			s, _, _ := pickLive()
			co.Slot = s
			o, _, _ := pickLive()
			co.Other = o
			if strings.HasPrefix(co.Kind, "slot-add") {
				co.Slot = ksSlots[r.Intn(4)]
			}
			nn := 1 + r.Intn(3)
			for k := 0; k < nn; k++ {
				s, key, _ := pickLive()
				nx := KSOp{Op: []string{"get", "get", "add", "del"}[r.Intn(4)], Slot: s, Key: key, New: ksSlots[r.Intn(4)], NewKey: r.Intn(ksKeys)}
				co.Next = append(co.Next, nx)
			}
			c.Ops = append(c.Ops, KSOp{Op: "corrupt", Corr: co})
		}
	}
	return c
}

func (c20) Shrink(cs Case) []Case {
	c := cs.(*C20Case)
	var out []Case
	if l := len(c.Ops); l > 3 {
		n := cloneJSON(c)
		n.Ops = n.Ops[:l/2]
		out = append(out, n)
	}
	for i := len(c.Ops) - 1; i >= 0; i-- {
		if c.Ops[i].Op == "snap" {
			// dropping a snapshot shifts later restore indices: only drop it if nothing restores
			uses := false
			for _, o := range c.Ops {
				if o.Op == "restore" {
					uses = true
				}
			}
			if uses {
				continue
			}
		}
		n := cloneJSON(c)
		n.Ops = dropAt(n.Ops, i)
		out = append(out, n)
	}
	for i, o := range c.Ops {
		if o.Corr != nil && len(o.Corr.Next) > 1 {
			for j := range o.Corr.Next {
				n := cloneJSON(c)
				n.Ops[i].Corr.Next = dropAt(n.Ops[i].Corr.Next, j)
				out = append(out, n)
			}
		}
	}
	return out
}

type ksKey struct{ priv string }

var ksPool []ksKey

// ksKeyPool generates the key pairs once per process (inside the bubble of the first run: key creation time = the
// bubble's start instant, which every later bubble shares).
func ksKeyPool() ([]ksKey, error) {
	if ksPool != nil {
		return ksPool, nil
	}
	var pool []ksKey
	for i := 0; i < ksKeys+1; i++ {
		k, err := helper.GenerateKey(fmt.Sprintf("k%d", i), fmt.Sprintf("k%d@sim.cosi.dev", i), nil, "x25519", 0)
		if err != nil {
			return nil, err
		}
		pool = append(pool, ksKey{priv: k})
	}
	ksPool = pool
	return pool, nil
}

type ksModel struct {
	inited bool
	live   map[string]int
}

func (m ksModel) clone() ksModel {
	n := ksModel{inited: m.inited, live: map[string]int{}}
	for k, v := range m.live {
		n.live[k] = v
	}
	return n
}

func (m ksModel) String() string {
	var parts []string
	for _, s := range sortedKeys(m.live) {
		parts = append(parts, fmt.Sprintf("%s:k%d", s, m.live[s]))
	}
	return fmt.Sprintf("{initialized=%v live=[%s]}", m.inited, strings.Join(parts, " "))
}

type ksSnap struct {
	data  []byte
	model ksModel
}

func (c20) Run(t *testing.T, cs Case, trace bool) *Outcome {
	c := cs.(*C20Case)
	out := &Outcome{}
	st, panics, berr := simrt.Run(t, simrt.Config{Seed: c.Seed, Policy: c.Policy, Trace: trace}, func(s *simrt.Sim) {
		keys, err := ksKeyPool()
		if err != nil {
			out.HarnessErr = "key generation: " + err.Error()
			return
		}
		mk := make([]byte, 32)
		x := c.Seed
		for i := range mk {
			x = simrt.SplitMix64(x)
			mk[i] = byte(x)
		}
		ks := &keystorage.KeyStorage{}
		model := ksModel{live: map[string]int{}}
		var snaps []ksSnap
		var hist []string
		note := func(format string, args ...any) { hist = append(hist, fmt.Sprintf(format, args...)) }
		fail := func(sig, format string, args ...any) {
			out.violate("C20/"+sig, sig, "%s\nmodel: %s\nhistory:\n  %s", fmt.Sprintf(format, args...), model, strings.Join(hist, "\n  "))
		}
		// audit: every slot of the universe against the model
		audit := func(k *keystorage.KeyStorage, m ksModel, when string, salt int) bool {
			for i, slot := range ksSlots {
				if key, ok := m.live[slot]; ok {
					got, err := k.GetMasterKey(slot, keys[key].priv)
					if err != nil || !bytes.Equal(got, mk) {
						fail("live-slot-unrecoverable", "%s: live slot %s with its key k%d does not recover the master key: key-equal=%v err=%v", when, slot, key, bytes.Equal(got, mk), err)
						return false
					}
					wrong := (key + 1 + (salt+i)%(ksKeys-1)) % ksKeys
					if got, err := k.GetMasterKey(slot, keys[wrong].priv); err == nil {
						fail("wrong-key-recovers", "%s: slot %s (key k%d) answered a retrieval with the wrong key k%d: returned %d bytes", when, slot, key, wrong, len(got))
						return false
					}
				} else {
					kk := (salt + i) % ksKeys
					if got, err := k.GetMasterKey(slot, keys[kk].priv); err == nil {
						fail("dead-slot-recovers", "%s: slot %s is not live (deleted or never added) but key k%d recovers %d bytes from it", when, slot, kk, len(got))
						return false
					}
				}
			}
			out.probe("audits")
			return true
		}
		// exec runs one API operation against storage k, returns its error
		exec := func(k *keystorage.KeyStorage, op KSOp) error {
			switch op.Op {
			case "init":
				return k.Initialize(mk, op.Slot, keys[op.Key].priv)
			case "add":
				return k.AddKeySlot(op.New, keys[op.NewKey].priv, op.Slot, keys[op.Key].priv)
			case "del":
				return k.DeleteKeySlot(op.Slot, keys[op.Key].priv)
			case "get":
				got, err := k.GetMasterKey(op.Slot, keys[op.Key].priv)
				if err == nil && !bytes.Equal(got, mk) {
					return fmt.Errorf("HARNESS-SEEN wrong key returned")
				}
				return err
			}
			panic("bad op " + op.Op)
		}
		slotChanges, unmarshals, corruptions := 0, 0, 0
		for i, op := range c.Ops {
			switch op.Op {
			case "init", "add", "del", "get":
				err := exec(ks, op)
				var wantOK bool
				var why string
				credOK := func() bool { k, ok := model.live[op.Slot]; return ok && k == op.Key }
				switch op.Op {
				case "init":
					wantOK, why = !model.inited, "a second initialisation must be refused"
				case "add":
					_, exists := model.live[op.New]
					wantOK, why = model.inited && !exists && credOK(), "add succeeds iff the new slot does not exist and the old slot's credentials are right"
				case "del":
					wantOK, why = model.inited && credOK() && len(model.live) > 1, "delete succeeds iff the credentials are right and it is not the last slot"
				case "get":
					wantOK, why = model.inited && credOK(), "retrieval succeeds iff the slot is live and the key is its key"
				}
				note("#%d %s slot=%s key=k%d new=%s newkey=k%d -> %v (expected ok=%v)", i, op.Op, op.Slot, op.Key, op.New, op.NewKey, err, wantOK)
				s.Note("%d %s %s %d %s %d ok=%v", i, op.Op, op.Slot, op.Key, op.New, op.NewKey, err == nil)
				if err != nil && strings.Contains(err.Error(), "HARNESS-SEEN") {
					fail("wrong-master-key", "operation #%d returned a key that is not the original master key", i)
					return
				}
				if (err == nil) != wantOK {
					fail("op-result:"+op.Op, "operation #%d %s: got err=%v, expected ok=%v (%s)", i, op.Op, err, wantOK, why)
					return
				}
				out.probe(fmt.Sprintf("%s/ok=%v", op.Op, wantOK))
				if err == nil {
					switch op.Op {
					case "init":
						model.inited = true
						model.live[op.Slot] = op.Key
						slotChanges++
					case "add":
						model.live[op.New] = op.NewKey
						slotChanges++
					case "del":
						delete(model.live, op.Slot)
						slotChanges++
					}
				}
			case "race":
				if _, ok := model.live[op.Slot]; !ok || model.live[op.Slot] != op.Key {
					continue
				}
				_, existed := model.live[op.New]
				errs := make([]error, 2)
				for k, nk := range []int{op.NewKey, op.NewKey2} {
					s.Spawn(fmt.Sprintf("adder%d", k), func() {
						errs[k] = ks.AddKeySlot(op.New, keys[nk].priv, op.Slot, keys[op.Key].priv)
					})
				}
				if r := s.Settle(100000); r != simrt.Quiescent {
					out.HarnessErr = fmt.Sprintf("C20 race did not become quiescent: %v", r)
					return
				}
				out.fault("concurrent-add-same-slot")
				note("#%d race add new=%s keys k%d/k%d via %s -> %v / %v", i, op.New, op.NewKey, op.NewKey2, op.Slot, errs[0], errs[1])
				s.Note("%d race %s ok=%v/%v", i, op.New, errs[0] == nil, errs[1] == nil)
				switch {
				case existed && (errs[0] == nil || errs[1] == nil):
					fail("existing-slot-overwritten", "operation #%d: slot %s exists, but a concurrent AddKeySlot for it succeeded", i, op.New)
					return
				case existed:
				case errs[0] == nil && errs[1] == nil:
					fail("existing-slot-overwritten", "operation #%d: two concurrent AddKeySlot calls for the same new slot %s both reported success: one caller's slot was silently replaced", i, op.New)
					return
				case errs[0] != nil && errs[1] != nil:
					fail("op-result:race", "operation #%d: two concurrent AddKeySlot calls for the free slot %s with valid credentials both failed: %v / %v", i, op.New, errs[0], errs[1])
					return
				case errs[0] == nil:
					model.live[op.New] = op.NewKey
					slotChanges++
				default:
					model.live[op.New] = op.NewKey2
					slotChanges++
				}
			case "snap":
				if !model.inited {
					continue
				}
				data, err := ks.MarshalBinary()
				if err != nil {
					fail("marshal", "MarshalBinary failed: %v", err)
					return
				}
				snaps = append(snaps, ksSnap{data: append([]byte{}, data...), model: model.clone()})
				note("#%d snapshot %d (%d bytes) of %s", i, len(snaps)-1, len(data), model)
			case "restore":
				if len(snaps) == 0 {
					continue
				}
				sn := snaps[op.Snap%len(snaps)]
				if op.Fresh {
					ks = &keystorage.KeyStorage{}
				}
				err := ks.UnmarshalBinary(append([]byte{}, sn.data...))
				note("#%d unmarshal snapshot %d into %s storage -> %v", i, op.Snap%len(snaps), map[bool]string{true: "a fresh", false: "the same"}[op.Fresh], err)
				if err != nil {
					fail("unmarshal", "UnmarshalBinary of an unaltered snapshot failed: %v", err)
					return
				}
				model = sn.model.clone()
				unmarshals++
				s.Note("%d restore %d %v", i, op.Snap, op.Fresh)
				out.probe(fmt.Sprintf("restore/fresh=%v", op.Fresh))
			case "corrupt":
				if !model.inited {
					continue
				}
				data, err := ks.MarshalBinary()
				if err != nil {
					fail("marshal", "MarshalBinary failed: %v", err)
					return
				}
				var stg key_storage.Storage
				if err := stg.UnmarshalVT(data); err != nil {
					out.HarnessErr = "decode of the marshalled storage: " + err.Error()
					return
				}
				co := op.Corr
				applied := applyKSCorruption(&stg, co, keys, mk)
				if !applied {
					continue
				}
				mut, err := stg.MarshalVT()
				if err != nil {
					out.HarnessErr = "re-encode: " + err.Error()
					return
				}
				if co.Kind == "slot-add-empty-wire" {
					// a planted slot whose encrypted_key field is PRESENT on the wire with length zero (the encoder above
					// omits empty fields): Storage.key_slots entry {key: id, value: KeySlot{algorithm: 1, encrypted_key: ""}}
					entry := append([]byte{0x0a, byte(len(co.Slot))}, co.Slot...)
					entry = append(entry, 0x12, 0x04, 0x08, 0x01, 0x12, 0x00)
					mut = append(append(mut, 0x12, byte(len(entry))), entry...)
				}
				if bytes.Equal(mut, data) {
					continue
				}
				corruptions++
				out.fault("corrupt:" + co.Kind)
				note("#%d corruption %s slot=%s other=%s pos=%d on a copy of the storage", i, co.Kind, co.Slot, co.Other, co.Pos)
				s.Note("%d corrupt %s %s %s %d %d", i, co.Kind, co.Slot, co.Other, co.Pos, len(co.Next))
				bad := &keystorage.KeyStorage{}
				if err := bad.UnmarshalBinary(mut); err != nil {
					out.probe("corruption-detected-at-unmarshal")
					continue
				}
				for j, nx := range co.Next {
					if _, ok := model.live[nx.Slot]; !ok {
						continue
					}
					err := exec(bad, nx)
					note("   corrupted storage: %s slot=%s key=k%d new=%s -> %v", nx.Op, nx.Slot, nx.Key, nx.New, err)
					if err == nil {
						fail("undetected:"+co.Kind, "after corruption %s (slot=%s other=%s) retrieval #%d (%s via live slot %s with its key) succeeded: the alteration went undetected", co.Kind, co.Slot, co.Other, j, nx.Op, nx.Slot)
						return
					}
					out.probe("corruption-detected/" + nx.Op)
				}
				// and no retrieval at all succeeds afterwards (a failed add/delete must not have repaired the tag)
				for _, slot := range sortedKeys(model.live) {
					if _, err := bad.GetMasterKey(slot, keys[model.live[slot]].priv); err == nil {
						fail("undetected:"+co.Kind, "after corruption %s (slot=%s other=%s) GetMasterKey via live slot %s succeeded: the alteration went undetected", co.Kind, co.Slot, co.Other, slot)
						return
					}
				}
				if co.Kind == "slot-add-attacker" {
					if got, err := bad.GetMasterKey(co.Slot, keys[ksKeys].priv); err == nil {
						fail("undetected:"+co.Kind, "a slot planted behind the API's back answers its planter: %d bytes", len(got))
						return
					}
				}
				continue // the original storage is untouched
			}
			if !audit(ks, model, fmt.Sprintf("after operation #%d (%s)", i, op.Op), i) {
				return
			}
		}
		out.Nontrivial = slotChanges >= 2 && unmarshals >= 1 && corruptions >= 1
		if ps := s.Panics(); len(ps) > 0 {
			out.violate("C20/panic", "panic:"+firstLine(ps[0].Value), "task %s panicked: %s\n%s", ps[0].Task, ps[0].Value, ps[0].Stack)
		}
		if trace {
			out.Notes = append(out.Notes, hist...)
		}
	})
	if len(panics) > 0 && out.Viol == nil {
		out.violate("C20/panic", "panic:"+firstLine(panics[0].Value), "task %s panicked: %s\n%s", panics[0].Task, panics[0].Value, panics[0].Stack)
	}
	out.finish(st, panics, berr, false)
	return out
}

// applyKSCorruption alters one field of the decoded storage. Returns false if the corruption does not apply.
func applyKSCorruption(stg *key_storage.Storage, co *KSCorruption, keys []ksKey, mk []byte) bool {
	ids := make([]string, 0, len(stg.KeySlots))
	for id := range stg.KeySlots {
		ids = append(ids, id)
	}
	sort.Strings(ids)
	slot := stg.KeySlots[co.Slot]
	switch co.Kind {
	case "blob-flip":
		if slot == nil || len(slot.EncryptedKey) == 0 {
			return false
		}
		slot.EncryptedKey[co.Pos%len(slot.EncryptedKey)] ^= 1 << uint(co.Bit)
	case "blob-trunc":
		if slot == nil || len(slot.EncryptedKey) == 0 {
			return false
		}
		slot.EncryptedKey = slot.EncryptedKey[:co.Pos%len(slot.EncryptedKey)]
	case "blob-append":
		if slot == nil {
			return false
		}
		slot.EncryptedKey = append(slot.EncryptedKey, byte('A'+co.Bit))
	case "blob-swap":
		other := stg.KeySlots[co.Other]
		if slot == nil || other == nil || co.Other == co.Slot {
			return false
		}
		slot.EncryptedKey = append([]byte{}, other.EncryptedKey...)
	case "blob-reencrypt":
		if slot == nil {
			return false
		}
		enc, err := helper.EncryptBinaryMessageArmored(keys[co.Key].priv, mk)
		if err != nil {
			return false
		}
		slot.EncryptedKey = []byte(enc)
	case "blob-empty":
		if slot == nil {
			return false
		}
		slot.EncryptedKey = nil
	case "slot-add-empty-wire":
		if slot != nil || len(ids) == 0 {
			return false
		}
		// applied on the wire form by the caller
	case "slot-add-copy", "slot-add-attacker", "slot-add-random", "slot-add-empty":
		if slot != nil || len(ids) == 0 {
			return false
		}
		ns := &key_storage.KeySlot{Algorithm: key_storage.Algorithm_PGP_AES_GCM_256}
		switch co.Kind {
		case "slot-add-copy":
			ns.EncryptedKey = append([]byte{}, stg.KeySlots[ids[co.Pos%len(ids)]].EncryptedKey...)
		case "slot-add-attacker":
			enc, err := helper.EncryptBinaryMessageArmored(keys[ksKeys].priv, mk)
			if err != nil {
				return false
			}
			ns.EncryptedKey = []byte(enc)
		case "slot-add-random":
			b := make([]byte, 1+co.Pos%64)
			x := uint64(co.Pos)
			for i := range b {
				x = simrt.SplitMix64(x)
				b[i] = byte(x)
			}
			ns.EncryptedKey = b
		}
		stg.KeySlots[co.Slot] = ns
	case "slot-remove":
		if slot == nil {
			return false
		}
		delete(stg.KeySlots, co.Slot)
	case "hmac-flip":
		if len(stg.KeysHmacHash) == 0 {
			return false
		}
		stg.KeysHmacHash[co.Pos%len(stg.KeysHmacHash)] ^= 1 << uint(co.Bit)
	case "hmac-trunc":
		if len(stg.KeysHmacHash) == 0 {
			return false
		}
		stg.KeysHmacHash = stg.KeysHmacHash[:co.Pos%len(stg.KeysHmacHash)]
	case "hmac-extend":
		stg.KeysHmacHash = append(stg.KeysHmacHash, byte(co.Pos))
	case "hmac-empty":
		stg.KeysHmacHash = nil
	default:
		panic("unknown corruption " + co.Kind)
	}
	return true
}
