package worlds

import (
	"context"
	"encoding/binary"
	"encoding/hex"
	"encoding/json"
	"fmt"
	"os"
	"os/exec"
	"strings"
	"sync"
	"testing"

	"github.com/cosi-project/runtime/pkg/controller/runtime/zzverif/simrt"
	"github.com/cosi-project/runtime/pkg/resource"
	"github.com/cosi-project/runtime/pkg/state"
)

// ---------------------------------------------------------------------------
// C12 — bookmarks resume exactly; stale/foreign rejected; tails exact (DESIGN §7 C12)

// ResumerSpec is a watcher that "crashes" after a few events and resumes from its last bookmark.
type ResumerSpec struct {
	Kind    string `json:"kind"` // kind | agg | single
	ID      string `json:"id,omitempty"`
	Chunks  []int  `json:"chunks"` // events consumed before each crash
	DelayMs int    `json:"delay_ms,omitempty"`
	StartMs int    `json:"start_ms,omitempty"`
	// Filtered: the watch carries the case's label selector (kind/agg only)
	Filtered bool `json:"filtered,omitempty"`
}

// ForgedSpec is a malformed bookmark probe.
type ForgedSpec struct {
	Mode  string `json:"mode"` // random | truncate | extend | flipcookie | setpos | foreign | empty
	From  int    `json:"from"` // index of the valid bookmark to derive from
	Bit   int    `json:"bit,omitempty"`
	Pos   int64  `json:"pos,omitempty"`
	Bytes string `json:"bytes,omitempty"` // hex for random
	Kind  string `json:"kind"`            // kind | agg | single
}

// TailSpec is a tail-events probe.
type TailSpec struct {
	Kind string `json:"kind"` // kind | agg | single
	ID   string `json:"id,omitempty"`
	N    int    `json:"n"`
}

// C12Case is a C12 run.
type C12Case struct {
	Common
	Variant  string        `json:"variant"`
	Hist     HistCfg       `json:"hist"`
	Writers  [][]WriteOp   `json:"writers"`
	Resumers []ResumerSpec `json:"resumers"`
	Forged   []ForgedSpec  `json:"forged"`
	Tails    []TailSpec    `json:"tails"`
	Late     []WriteOp     `json:"late"` // writes after the probes were established
	ProbeAll bool          `json:"probe_all"`
	// Filter, if set, adds a label-filtered reference watcher, filtered resume probes from each of its bookmarks and
	// filtered resumers: synthetic Created/Destroyed events (resources moving into/out of the selection) must carry
	// usable bookmarks too.
	Filter *Selector `json:"filter,omitempty"`
}

type c12 struct{}

func init() { register(c12{}) }

func (c12) ID() string { return "C12" }

func (c12) Rule() string {
	return "case = tapped store + history config (initial 1-8, max<=16, gap 0-3 or defaults) + writers (<=40 commits, 1-3 ids) + resumers (kind/agg/single watches that crash after k events and restart from the last bookmark, repeatedly, while writes continue) + at quiescence a watch resumed from EVERY bookmark of the reference stream (kind; sampled agg/single), forged bookmarks (random bytes, truncation, extension, cookie bit flips, arbitrary positions, a bookmark minted by another OS process) and tail requests of all sizes, followed by late writes; non-trivial = the ring wrapped or a resume happened while writes were in flight; distinct = distinct scheduler trace hash"
}

func (c12) Components() (real, stub []string) {
	return []string{"pkg/state/impl/inmem (bookmark encode/decode, history ring, tail/bookmark start positions)", "pkg/state (options, errors)"},
		[]string{"Go scheduler choice (simrt)", "OS clock (synctest)"}
}

func (c12) Decode(b []byte) (Case, error) {
	var c C12Case
	err := json.Unmarshal(b, &c)
	return &c, err
}

func (c12) Gen(seed uint64, tier string) Case {
	r := simrt.NewRNG(seed)
	c := &C12Case{Common: Common{Prop: "C12", Seed: seed, Tier: tier}}
	c.Variant = "inmem+tap"
	c.Hist = genHist(r)
	nids := 1 + r.Intn(3)
	nw := 1 + r.Intn(2)
	maxOps := 12
	if tier == "thorough" {
		maxOps = 22
	}
	uniq := 0
	var prefixes []string
	for i := 0; i < nw; i++ {
		c.Writers = append(c.Writers, genWriteOps(r, i, 2+r.Intn(maxOps), []string{TypeA}, nids, &uniq, r.Bool(0.5)))
		prefixes = append(prefixes, fmt.Sprintf("writer%d", i))
	}
	nr := r.Intn(3)
	for i := 0; i < nr; i++ {
		rs := ResumerSpec{Kind: []string{"kind", "agg", "single"}[r.Pick([]int{3, 2, 2})]}
		if rs.Kind == "single" {
			rs.ID = fmt.Sprintf("r%d", r.Intn(nids))
		}
		for k := 0; k < 1+r.Intn(4); k++ {
			rs.Chunks = append(rs.Chunks, 1+r.Intn(4))
		}
		if r.Bool(0.4) {
			rs.DelayMs = 1 + r.Intn(800)
		}
		if r.Bool(0.5) {
			rs.StartMs = r.Intn(3000)
		}
		c.Resumers = append(c.Resumers, rs)
		prefixes = append(prefixes, fmt.Sprintf("resumer%d", i))
	}
	nf := 1 + r.Intn(5)
	for i := 0; i < nf; i++ {
		f := ForgedSpec{From: r.Intn(40), Kind: []string{"kind", "agg", "single"}[r.Pick([]int{3, 1, 2})]}
		switch r.Pick([]int{2, 2, 1, 2, 4, 2, 1}) {
		case 0:
			f.Mode = "random"
			b := make([]byte, []int{0, 1, 8, 15, 16, 16, 17, 32}[r.Intn(8)])
			for k := range b {
				b[k] = byte(r.Intn(256))
			}
			f.Bytes = hex.EncodeToString(b)
		case 1:
			f.Mode = "truncate"
			f.Bit = r.Intn(16)
		case 2:
			f.Mode = "extend"
		case 3:
			f.Mode = "flipcookie"
			f.Bit = r.Intn(64)
		case 4:
			f.Mode = "setpos"
			f.Pos = []int64{-2, -1, 0, 1, int64(r.Intn(50)), int64(r.Intn(50)) + 1000, -int64(r.Intn(100)) - 3, 1 << 40, -1 << 40}[r.Intn(9)]
		case 5:
			f.Mode = "foreign"
		case 6:
			f.Mode = "empty"
		}
		c.Forged = append(c.Forged, f)
	}
	nt := 1 + r.Intn(4)
	for i := 0; i < nt; i++ {
		t := TailSpec{Kind: []string{"kind", "agg", "single"}[r.Pick([]int{3, 2, 3})], N: 1 + r.Intn(20)}
		if t.Kind == "single" {
			t.ID = fmt.Sprintf("r%d", r.Intn(nids))
		}
		c.Tails = append(c.Tails, t)
	}
	c.Late = genWriteOps(r, 9, r.Intn(5), []string{TypeA}, nids, &uniq, true)
	c.ProbeAll = true
	if r.Bool(0.6) {
		c.Filter = simpleSelector(r, c.Writers)
		for i := range c.Resumers {
			if c.Resumers[i].Kind != "single" && r.Bool(0.5) {
				c.Resumers[i].Filtered = true
			}
		}
	}
	c.Policy = genPolicy(r, prefixes)
	return c
}

func (c12) Shrink(cs Case) []Case {
	c := cs.(*C12Case)
	var out []Case
	for i := range c.Resumers {
		n := cloneJSON(c)
		n.Resumers = dropAt(n.Resumers, i)
		out = append(out, n)
	}
	for i := range c.Forged {
		n := cloneJSON(c)
		n.Forged = dropAt(n.Forged, i)
		out = append(out, n)
	}
	for i := range c.Tails {
		n := cloneJSON(c)
		n.Tails = dropAt(n.Tails, i)
		out = append(out, n)
	}
	if c.ProbeAll {
		n := cloneJSON(c)
		n.ProbeAll = false
		out = append(out, n)
	}
	if c.Filter != nil {
		n := cloneJSON(c)
		n.Filter = nil
		for i := range n.Resumers {
			n.Resumers[i].Filtered = false
		}
		out = append(out, n)
	}
	if len(c.Late) > 0 {
		n := cloneJSON(c)
		n.Late = nil
		out = append(out, n)
	}
	if len(c.Writers) > 1 {
		for i := range c.Writers {
			n := cloneJSON(c)
			n.Writers = dropAt(n.Writers, i)
			out = append(out, n)
		}
	}
	for i := range c.Writers {
		if l := len(c.Writers[i]); l > 3 {
			n := cloneJSON(c)
			n.Writers[i] = n.Writers[i][:l/2]
			out = append(out, n)
		}
		for j := range c.Writers[i] {
			n := cloneJSON(c)
			n.Writers[i] = dropAt(n.Writers[i], j)
			out = append(out, n)
		}
	}
	if c.Policy.Kind != "walk" || c.Policy.SwitchProb != 0.2 || c.Policy.PermuteMaps || c.Policy.StarvePrefix != "" || c.Policy.PreemptProb != 0 {
		n := cloneJSON(c)
		n.Policy = simrt.Policy{Kind: "walk", SwitchProb: 0.2}
		out = append(out, n)
	}
	return out
}

var (
	foreignOnce sync.Once
	foreignBM   []byte
)

// foreignBookmark returns a bookmark minted by a different OS process (a child run of this binary).
func foreignBookmark() []byte {
	foreignOnce.Do(func() {
		if os.Getenv("VERIF_MINT_BOOKMARK") != "" {
			return
		}
		cmd := exec.Command(os.Args[0], "-test.run", "^TestMintBookmark$")
		cmd.Env = append(os.Environ(), "VERIF_MINT_BOOKMARK=1")
		outb, err := cmd.Output()
		if err != nil {
			return
		}
		for _, l := range strings.Split(string(outb), "\n") {
			if strings.HasPrefix(l, "BOOKMARK ") {
				foreignBM, _ = hex.DecodeString(strings.TrimSpace(l[9:]))
			}
		}
	})
	return foreignBM
}

type probe struct {
	name     string
	rec      *WatchRec
	bookmark []byte
	wantFrom int  // expected first log index delivered (kind/agg: log idx; single: idx in collection log too)
	mustOK   bool // bookmark inside the guaranteed window
	mayOK    bool
	forged   *ForgedSpec
	tail     *TailSpec
	refIdx   int
	filtered bool
}

// simpleSelector draws a label selector over the label key the writers churn (k in 0..2) and turns some plain updates of
// the writers into label changes, so that resources move into and out of the selection.
func simpleSelector(r *simrt.RNG, writers [][]WriteOp) *Selector {
	sel := []Selector{
		{Queries: [][]SelTerm{{{Key: "k", Op: "exists"}}}},
		{Queries: [][]SelTerm{{{Key: "k", Op: "equal", Values: []string{"1"}}}}},
		{Queries: [][]SelTerm{{{Key: "k", Op: "in", Values: []string{"0", "2"}}}}},
		{Queries: [][]SelTerm{{{Key: "k", Op: "equal", Values: []string{"0"}, Invert: true}}}},
		{Queries: [][]SelTerm{{{Key: "k", Op: "ltnum", Values: []string{"2"}}}}},
		{IDRe: "r[01]"},
	}[r.Intn(6)]
	for i := range writers {
		for j := range writers[i] {
			op := &writers[i][j]
			if op.Kind == "update" && op.Mut == "val" && r.Bool(0.4) {
				if r.Bool(0.25) {
					op.Mut = "unlabel:k"
				} else {
					op.Mut = fmt.Sprintf("label:k=%d", r.Intn(3))
				}
			}
		}
	}
	return &sel
}

// matchEvents compares delivered data events with the expected ones (type, value, old value, bookmark = log position).
func matchEvents(data []EvRec, exp []expectedEvent) string {
	for j := 0; j < len(data) && j < len(exp); j++ {
		e, x := data[j], exp[j]
		if e.Type != x.Type || e.Snap != x.Snap || e.HasOld != x.HasOld || (x.HasOld && e.Old != x.Old) {
			return fmt.Sprintf("event %d is %s, the log says %s(%s@%s)", j, e.String(), x.Type, x.Snap.ID, x.Snap.Version)
		}
		if bp, ok := bookmarkPos(e.Bookmark); !ok || int(bp) != x.LogIdx {
			return fmt.Sprintf("event %d (%s) carries bookmark %x, not the bookmark of log position %d", j, e.String(), e.Bookmark, x.LogIdx)
		}
	}
	if len(data) != len(exp) {
		return fmt.Sprintf("delivered %d events, the filtered log has %d: got %s", len(data), len(exp), renderEvents(data))
	}
	return ""
}

func bookmarkPos(b []byte) (int64, bool) {
	if len(b) != 16 {
		return 0, false
	}
	return int64(binary.BigEndian.Uint64(b[8:])), true
}

func (c12) Run(t *testing.T, cs Case, trace bool) *Outcome {
	c := cs.(*C12Case)
	out := &Outcome{}
	var acks []Ack
	var ev int64
	foreign := foreignBookmark()
	st, panics, berr := simrt.Run(t, simrt.Config{Seed: c.Seed, Policy: c.Policy, Trace: trace}, func(s *simrt.Sim) {
		w := NewStoreWorld(c.Variant, c.Hist)
		ctx, cancel := context.WithCancel(context.Background())
		defer cancel()
		commits := func(ns, typ string) int {
			n := 0
			for _, cm := range w.Log {
				if cm.NS == ns && cm.Type == typ {
					n++
				}
			}
			return n
		}
		env := &watchEnv{prop: "C12", st: w.Core, ev: &ev, out: out, commits: commits}
		// reference watchers: kind with bootstrap bookmark (so even an empty log yields a bookmark)
		ref := &WatchRec{Spec: WatchSpec{Kind: "kind", Type: TypeA, BootstrapBookmark: true}, Name: "ref"}
		s.Spawn("ref", func() { runWatcher(ctx, env, ref, nil, nil) })
		var fref *WatchRec
		var fopts []state.WatchKindOption
		if c.Filter != nil {
			fopts = c.Filter.watchOpts()
			fref = &WatchRec{Spec: WatchSpec{Kind: "kind", Type: TypeA, BootstrapBookmark: true}, Name: "fref"}
			s.Spawn("fref", func() { runWatcher(ctx, env, fref, fopts, nil) })
		}
		s.Settle(1000) // reference is established before anything is written
		for i, ops := range c.Writers {
			wr := &writer{st: w.Core, acks: &acks, ev: &ev, out: out}
			s.Spawn(fmt.Sprintf("writer%d", i), func() {
				for _, op := range ops {
					wr.do(ctx, op)
				}
			})
		}
		// resumers
		type resumerRec struct {
			spec      ResumerSpec
			name      string
			events    []EvRec
			firstFrom int
			rejected  string
			problem   string
			resumes   int
			recs      []*WatchRec
		}
		var resumers []*resumerRec
		for i, rs := range c.Resumers {
			rr := &resumerRec{spec: rs, name: fmt.Sprintf("resumer%d", i), firstFrom: -1}
			resumers = append(resumers, rr)
			s.Spawn(rr.name, func() {
				var last []byte
				chunks := append(append([]int{}, rs.Chunks...), 1<<30)
				for round, chunk := range chunks {
					spec := WatchSpec{Kind: rs.Kind, Type: TypeA, ID: rs.ID, DelayMs: rs.DelayMs, CancelAfter: chunk}
					if chunk == 1<<30 {
						spec.CancelAfter = 0
					}
					var ko []state.WatchKindOption
					var so []state.WatchOption
					if rs.Filtered && c.Filter != nil {
						ko = append(ko, c.Filter.watchOpts()...)
					}
					if round == 0 {
						spec.StartMs = rs.StartMs
						if rs.Kind != "single" {
							spec.BootstrapBookmark = true
						}
					} else {
						ko = append(ko, state.WithKindStartFromBookmark(last))
						so = append(so, state.WithStartFromBookmark(last))
						rr.resumes++
					}
					rec := &WatchRec{Spec: spec, Name: rr.name}
					if spec.BootstrapBookmark {
						// the Noop does not count towards the chunk
						if spec.CancelAfter > 0 {
							spec.CancelAfter++
							rec.Spec = spec
						}
					}
					if rs.Kind == "single" && round == 0 && spec.CancelAfter > 0 {
						spec.CancelAfter++ // the initial event
						rec.Spec = spec
					}
					rr.recs = append(rr.recs, rec)
					runWatcher(ctx, env, rec, ko, so)
					if rec.Err != nil {
						pos, _ := bookmarkPos(last)
						if !state.IsInvalidWatchBookmarkError(rec.Err) {
							rr.problem = fmt.Sprintf("resume from bookmark %d failed with a non-bookmark error: %v", pos, rec.Err)
						} else if int(pos) >= rec.RetCommit-effInitial(c.Hist)+c.Hist.effGap() {
							rr.problem = fmt.Sprintf("bookmark of event %d was rejected although it is among the most recent (initial capacity %d - gap %d) events (log length at resume between %d and %d)", pos, effInitial(c.Hist), c.Hist.effGap(), rec.InvokeCommit, rec.RetCommit)
						} else {
							rr.rejected = rec.Err.Error()
							out.probe("resume-rejected-legit")
						}
						return
					}
					for _, e := range rec.Events {
						if len(e.Bookmark) > 0 {
							last = e.Bookmark
						}
						if e.Type == "Errored" {
							return
						}
					}
					if !rec.Cancelled {
						return
					}
					if last == nil {
						return
					}
				}
			})
		}
		if r := s.Settle(600000); r != simrt.Quiescent {
			out.HarnessErr = fmt.Sprintf("C12 phase 1 did not become quiescent: %v live=%v", r, s.Live())
			return
		}
		log := collectionLog(w.Log, "ns1", TypeA)
		n1 := len(log)
		// the reference stream must be the log (C02 oracle) and every event must carry a bookmark
		checkStreamAgainstLog("C12", ref, log, true, c.Hist, out)
		var refData []EvRec
		for _, e := range ref.Events {
			if e.Type == "Created" || e.Type == "Updated" || e.Type == "Destroyed" {
				refData = append(refData, e)
			}
		}
		refErrored := len(ref.Events) > 0 && ref.Events[len(ref.Events)-1].Type == "Errored"
		if out.Viol != nil {
			return
		}
		for i, e := range refData {
			if p, ok := bookmarkPos(e.Bookmark); !ok || int(p) != i {
				if !ok {
					out.violate("C12/bookmark-missing", "bookmark-missing", "reference event %d (%s) carries no well-formed bookmark (%x)", i, e.String(), e.Bookmark)
					return
				}
			}
		}
		guaranteedFrom := n1 - effInitial(c.Hist) + c.Hist.effGap() // bookmarks of events >= this index must be accepted
		// the filtered reference stream: the selector-filtered log (moves into/out of the selection included), every
		// event with the bookmark of the commit that produced it
		var frefData []EvRec
		frefErrored := false
		if fref != nil {
			for _, e := range fref.Events {
				switch e.Type {
				case "Created", "Updated", "Destroyed":
					frefData = append(frefData, e)
				case "Errored":
					frefErrored = true
				}
			}
			_, fexp, movedIn, movedOut := expectedFiltered(log, 0, *c.Filter)
			if !frefErrored {
				if why := matchEvents(frefData, fexp); why != "" {
					out.violate("C12/filtered-stream", "filtered-stream", "label-filtered watch (%s): %s\nlog: %s", c.Filter.String(), why, renderLog(log))
					return
				}
				out.probeN("filtered-moves", movedIn+movedOut)
			}
		}
		// ---- phase 2: probes on the quiescent store
		var probes []*probe
		addProbe := func(p *probe, ko []state.WatchKindOption, so []state.WatchOption) {
			probes = append(probes, p)
			s.Spawn(p.name, func() { runWatcher(ctx, env, p.rec, ko, so) })
		}
		if c.ProbeAll && !refErrored {
			for i, e := range refData {
				kinds := []string{"kind"}
				if i%3 == 0 {
					kinds = append(kinds, "agg")
				}
				if i%2 == 1 {
					kinds = append(kinds, "single")
				}
				for _, k := range kinds {
					p := &probe{name: fmt.Sprintf("probe-%s-%d", k, i), bookmark: e.Bookmark, wantFrom: i + 1, mustOK: i >= guaranteedFrom, mayOK: true, refIdx: i}
					p.rec = &WatchRec{Spec: WatchSpec{Kind: k, Type: TypeA}, Name: p.name}
					if k == "single" {
						p.rec.Spec.ID = e.Snap.ID
					}
					addProbe(p, []state.WatchKindOption{state.WithKindStartFromBookmark(e.Bookmark)}, []state.WatchOption{state.WithStartFromBookmark(e.Bookmark)})
				}
			}
		}
		if fref != nil && !frefErrored {
			for i, e := range frefData {
				pos, ok := bookmarkPos(e.Bookmark)
				if !ok {
					continue // reported above
				}
				kinds := []string{"kind"}
				if i%3 == 0 {
					kinds = append(kinds, "agg")
				}
				for _, k := range kinds {
					p := &probe{name: fmt.Sprintf("fprobe-%s-%d", k, i), bookmark: e.Bookmark, wantFrom: int(pos) + 1, mustOK: int(pos) >= guaranteedFrom, mayOK: true, refIdx: int(pos), filtered: true}
					p.rec = &WatchRec{Spec: WatchSpec{Kind: k, Type: TypeA}, Name: p.name}
					addProbe(p, append(append([]state.WatchKindOption{}, fopts...), state.WithKindStartFromBookmark(e.Bookmark)), nil)
				}
			}
		}
		// the bootstrap bookmark (position -1 on a then-empty log)
		if len(ref.Events) > 0 && ref.Events[0].Type == "Noop" {
			bm := ref.Events[0].Bookmark
			p := &probe{name: "probe-bootstrap", bookmark: bm, wantFrom: 0, mustOK: -1 >= guaranteedFrom, mayOK: true, refIdx: -1}
			p.rec = &WatchRec{Spec: WatchSpec{Kind: "kind", Type: TypeA}, Name: p.name}
			addProbe(p, []state.WatchKindOption{state.WithKindStartFromBookmark(bm)}, nil)
		}
		for i := range c.Forged {
			f := &c.Forged[i]
			var base []byte
			if len(refData) > 0 {
				base = append([]byte(nil), refData[f.From%len(refData)].Bookmark...)
			} else if len(ref.Events) > 0 {
				base = append([]byte(nil), ref.Events[0].Bookmark...)
			}
			if len(base) != 16 {
				continue
			}
			p := &probe{name: fmt.Sprintf("forged%d-%s", i, f.Mode), forged: f}
			switch f.Mode {
			case "random":
				p.bookmark, _ = hex.DecodeString(f.Bytes)
				if len(p.bookmark) == 0 {
					p.bookmark = []byte{}
				}
			case "truncate":
				p.bookmark = base[:f.Bit%16]
			case "extend":
				p.bookmark = append(base, 0)
			case "flipcookie":
				base[f.Bit/8] ^= 1 << (f.Bit % 8)
				p.bookmark = base
			case "setpos":
				binary.BigEndian.PutUint64(base[8:], uint64(f.Pos))
				p.bookmark = base
				p.mayOK = true
				p.wantFrom = int(f.Pos) + 1
				p.mustOK = int(f.Pos) >= guaranteedFrom && int(f.Pos) < n1 && f.Pos >= 0
			case "foreign":
				if len(foreign) != 16 {
					continue
				}
				p.bookmark = append([]byte(nil), foreign...)
				// make its position plausible so that only the incarnation cookie can reject it
				if n1 > 0 {
					binary.BigEndian.PutUint64(p.bookmark[8:], uint64(n1-1))
				}
			case "empty":
				p.bookmark = []byte{}
			}
			p.rec = &WatchRec{Spec: WatchSpec{Kind: f.Kind, Type: TypeA}, Name: p.name}
			if f.Kind == "single" {
				p.rec.Spec.ID = "r0"
			}
			addProbe(p, []state.WatchKindOption{state.WithKindStartFromBookmark(p.bookmark)}, []state.WatchOption{state.WithStartFromBookmark(p.bookmark)})
		}
		for i := range c.Tails {
			tl := &c.Tails[i]
			p := &probe{name: fmt.Sprintf("tail%d-%s-%d", i, tl.Kind, tl.N), tail: tl}
			p.rec = &WatchRec{Spec: WatchSpec{Kind: tl.Kind, Type: TypeA, ID: tl.ID, Tail: tl.N}, Name: p.name}
			addProbe(p, nil, nil)
		}
		if r := s.Settle(600000); r != simrt.Quiescent {
			out.HarnessErr = fmt.Sprintf("C12 phase 2 did not become quiescent: %v", r)
			return
		}
		// ---- phase 3: late writes, everything still live must follow
		if len(c.Late) > 0 {
			wr := &writer{st: w.Core, acks: &acks, ev: &ev, out: out}
			s.Spawn("late", func() {
				for _, op := range c.Late {
					wr.do(ctx, op)
				}
			})
			if r := s.Settle(600000); r != simrt.Quiescent {
				out.HarnessErr = fmt.Sprintf("C12 phase 3 did not become quiescent: %v", r)
				return
			}
		}
		if ps := s.Panics(); len(ps) > 0 {
			out.violate("C12/panic", "panic:"+firstLine(ps[0].Value), "task %s panicked: %s\n%s", ps[0].Task, ps[0].Value, ps[0].Stack)
			return
		}
		log = collectionLog(w.Log, "ns1", TypeA)
		_, expAll := expectedFrom(log, 0, "")
		// expected per-id streams
		var expFiltered []expectedEvent
		if c.Filter != nil {
			_, expFiltered, _, _ = expectedFiltered(log, 0, *c.Filter)
		}
		matchSuffix := func(p *probe, data []EvRec, from int, id string) string {
			var exp []expectedEvent
			src := expAll
			if p != nil && p.filtered {
				src = expFiltered
			}
			for _, x := range src {
				if x.LogIdx >= from && (id == "" || x.Snap.ID == id) {
					exp = append(exp, x)
				}
			}
			if len(data) != len(exp) {
				return fmt.Sprintf("delivered %d events, the log has %d after position %d: got %s", len(data), len(exp), from-1, renderEvents(data))
			}
			for j := range exp {
				e, x := data[j], exp[j]
				if e.Type != x.Type || e.Snap != x.Snap || e.HasOld != x.HasOld || (x.HasOld && e.Old != x.Old) {
					return fmt.Sprintf("event %d is %s, the log says %s(%s@%s)", j, e.String(), x.Type, x.Snap.ID, x.Snap.Version)
				}
				if bp, ok := bookmarkPos(e.Bookmark); !ok || int(bp) != x.LogIdx {
					return fmt.Sprintf("event %d (%s) carries bookmark %x, not the bookmark of log position %d", j, e.String(), e.Bookmark, x.LogIdx)
				}
			}
			return ""
		}
		for _, p := range probes {
			rec := p.rec
			var data []EvRec
			errored := false
			for _, e := range rec.Events {
				switch e.Type {
				case "Created", "Updated", "Destroyed":
					data = append(data, e)
				case "Errored":
					errored = true
				}
			}
			id := ""
			if rec.Spec.Kind == "single" {
				id = rec.Spec.ID
			}
			switch {
			case p.tail != nil:
				if rec.Err != nil {
					out.violate("C12/tail-error", "tail-error", "%s: tail watch failed: %v", p.name, rec.Err)
					continue
				}
				if errored {
					continue
				}
				// events delivered = tail part (log idx < n1) + live part (>= n1); tail part must be a suffix of the
				// (per-id) stream up to n1 with the right length
				var avail, guaranteed int
				for _, x := range expAll {
					if x.LogIdx < n1 && (id == "" || x.Snap.ID == id) {
						avail++
						if x.LogIdx >= n1-(effInitial(c.Hist)-c.Hist.effGap()) {
							guaranteed++
						}
					}
				}
				tailGot := 0
				for _, e := range data {
					if bp, ok := bookmarkPos(e.Bookmark); ok && int(bp) < n1 {
						tailGot++
					}
				}
				lo := min(p.tail.N, guaranteed)
				hi := min(p.tail.N, avail)
				if tailGot < lo || tailGot > hi {
					out.violate("C12/tail-size", "tail-size:"+rec.Spec.Kind, "%s: tail request for %d events delivered %d retained events; %d exist, %d of them inside the guaranteed window (initial %d - gap %d): expected between %d and %d\nevents: %s", p.name, p.tail.N, tailGot, avail, guaranteed, effInitial(c.Hist), c.Hist.effGap(), lo, hi, renderEvents(rec.Events))
					continue
				}
				// contiguity: the whole delivered stream must be the suffix starting at the first delivered event
				from := n1
				// for single watches the first delivered event must be the tailGot-th last event of the id
				if tailGot > 0 {
					cnt := 0
					want := -1
					for k := len(expAll) - 1; k >= 0; k-- {
						x := expAll[k]
						if x.LogIdx < n1 && (id == "" || x.Snap.ID == id) {
							cnt++
							if cnt == tailGot {
								want = x.LogIdx
							}
						}
					}
					bp0, _ := bookmarkPos(data[0].Bookmark)
					if want != int(bp0) {
						out.violate("C12/tail-contiguity", "tail-not-suffix:"+rec.Spec.Kind, "%s: the %d tail events do not start at log position %d (the %d-th last retained event) but at %d\nevents: %s", p.name, tailGot, want, tailGot, bp0, renderEvents(rec.Events))
						continue
					}
					from = want
				}
				if len(data) > 0 {
					if why := matchSuffix(p, data, from, id); why != "" {
						out.violate("C12/tail-contiguity", "tail-gap:"+rec.Spec.Kind, "%s: tail stream is not a contiguous suffix of the log: %s", p.name, why)
					}
				}
				out.probe("tail-checked")
			case rec.Err != nil:
				if !state.IsInvalidWatchBookmarkError(rec.Err) {
					out.violate("C12/reject-class", "reject-class", "%s: bookmark %x rejected with an error that is not an invalid-bookmark error: %v", p.name, p.bookmark, rec.Err)
					continue
				}
				if p.mustOK {
					out.violate("C12/guaranteed-window", "guaranteed-window:"+rec.Spec.Kind, "%s: bookmark of log position %d was rejected although it is among the most recent (initial capacity %d - gap %d) of %d events", p.name, p.wantFrom-1, effInitial(c.Hist), c.Hist.effGap(), n1)
					continue
				}
				out.probe("bookmark-rejected")
			default:
				// accepted
				if p.forged != nil && p.forged.Mode != "setpos" {
					out.violate("C12/forged-accepted", "forged-accepted:"+p.forged.Mode, "%s: malformed/foreign bookmark %x (%s) was accepted", p.name, p.bookmark, p.forged.Mode)
					continue
				}
				if p.forged != nil && (p.forged.Pos >= int64(n1) || p.forged.Pos < -1 || (p.forged.Pos == -1 && rec.Spec.Kind == "single")) {
					out.violate("C12/forged-accepted", "out-of-log-accepted", "%s: bookmark for position %d was accepted; the log had %d events", p.name, p.forged.Pos, n1)
					continue
				}
				if errored {
					continue
				}
				if why := matchSuffix(p, data, p.wantFrom, id); why != "" {
					out.violate("C12/resume-exactness", "resume-gap:"+rec.Spec.Kind, "%s: watch resumed from the bookmark of log position %d is not the exact continuation: %s\nlog: %s", p.name, p.wantFrom-1, why, renderLog(log))
					continue
				}
				out.probe("bookmark-accepted")
			}
		}
		for _, rr := range resumers {
			for round, rec := range rr.recs {
				for _, e := range rec.Events {
					switch e.Type {
					case "Noop":
						if p, ok := bookmarkPos(e.Bookmark); ok && rr.firstFrom < 0 {
							rr.firstFrom = int(p) + 1
						}
					case "Created", "Updated", "Destroyed":
						if rr.spec.Kind == "single" && round == 0 && len(e.Bookmark) == 0 {
							continue // initial event of a single watch carries no bookmark
						}
						rr.events = append(rr.events, e)
						if len(e.Bookmark) == 0 && rr.problem == "" {
							rr.problem = "event without bookmark: " + e.String()
						}
					case "Errored":
						rr.rejected = "errored: " + e.Err
					}
				}
			}
			if rr.problem != "" {
				out.violate("C12/resumer", "resumer:"+rr.spec.Kind, "%s (%+v): %s", rr.name, rr.spec, rr.problem)
				continue
			}
			if rr.rejected != "" {
				continue
			}
			if rr.resumes > 0 {
				out.probe("resumed")
			}
			// the concatenation must be contiguous: consecutive bookmarks, and equal to the log from its first event on
			if len(rr.events) == 0 {
				continue
			}
			id := ""
			if rr.spec.Kind == "single" {
				id = rr.spec.ID
			}
			bp, _ := bookmarkPos(rr.events[0].Bookmark)
			from := int(bp)
			if rr.firstFrom >= 0 {
				from = rr.firstFrom
			}
			var fp *probe
			if rr.spec.Filtered && c.Filter != nil {
				fp = &probe{filtered: true}
			}
			if why := matchSuffix(fp, rr.events, from, id); why != "" {
				out.violate("C12/resume-concatenation", "resume-concat:"+rr.spec.Kind, "%s (%+v, %d resumes): the interrupted-and-resumed stream does not concatenate to the uninterrupted one from log position %d: %s\nlog: %s", rr.name, rr.spec, rr.resumes, from, why, renderLog(log))
			}
		}
		if n1 > effInitial(c.Hist) {
			out.probe("ring-wrapped")
			out.Nontrivial = true
		}
		for _, rr := range resumers {
			if rr.resumes > 0 {
				out.Nontrivial = true
			}
		}
		if trace {
			out.Trace = s.Trace()
			for _, p := range probes {
				out.Notes = append(out.Notes, fmt.Sprintf("%s bm=%x err=%v events=%s", p.name, p.bookmark, p.rec.Err, renderEvents(p.rec.Events)))
			}
			out.Notes = append(out.Notes, "log: "+renderLog(log))
		}
		cancel()
		s.Settle(400000)
	})
	out.finish(st, panics, berr, true)
	return out
}

func (h HistCfg) effGap() int {
	if h.Initial > 0 {
		return h.Gap
	}
	return 5
}

// mintBookmark creates one committed event in a fresh store and returns its bookmark.
func mintBookmark() []byte {
	w := NewStoreWorld("inmem", HistCfg{})
	ctx, cancel := context.WithCancel(context.Background())
	defer cancel()
	ch := make(chan state.Event, 4)
	if err := w.Core.WatchKind(ctx, resource.NewMetadata("ns1", TypeA, "", resource.VersionUndefined), ch); err != nil {
		return nil
	}
	if err := w.Core.Create(ctx, NewRes("ns1", TypeA, "x", "v")); err != nil {
		return nil
	}
	ev := <-ch
	return ev.Bookmark
}
