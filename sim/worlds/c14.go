package worlds

import (
	"context"
	"encoding/json"
	"fmt"
	"strings"
	"testing"

	"github.com/cosi-project/runtime/pkg/controller/runtime/zzverif/simrt"
	"github.com/cosi-project/runtime/pkg/resource"
	"github.com/cosi-project/runtime/pkg/state"
)

// ---------------------------------------------------------------------------
// C14 — selector-filtered lists/watches are exact views; one selector semantics (DESIGN §7 C14)

// SelWatch is a filtered kind watch.
type SelWatch struct {
	Sel  int       `json:"sel"`  // index into Selectors
	Site string    `json:"site"` // direct | remote
	Spec WatchSpec `json:"spec"`
}

// C14Case is a C14 run.
type C14Case struct {
	Common
	Selectors []Selector  `json:"selectors"`
	Writers   [][]WriteOp `json:"writers"`
	Watches   []SelWatch  `json:"watches"`
	Late      []WriteOp   `json:"late"`
}

type c14 struct{}

func init() { register(c14{}) }

func (c14) ID() string { return "C14" }

func (c14) Rule() string {
	return "case = 1-3 random selectors (all operators, inversion, empty value lists, non-numeric operands, unit suffixes, missing labels, AND within and OR across queries, id regexps) + writers churning labels so that resources move into and out of the selectors + filtered kind watches (single-event and aggregated, with/without bootstrap, started at random virtual times) at two sites (direct state, simulated gRPC leg) + the runtime cache; at quiescence List(selector) at the four sites (direct, remote, cached, and the watch replay) is compared with a brute-force filter of the unfiltered List through an independent reference evaluator, and every filtered stream is compared event by event (moves in/out as Created/Destroyed, bookmarks) with the stream derived from the commit log; non-trivial = >=1 resource moved into and >=1 out of a selector while a filtered watch was live; distinct = distinct (selectors, history, schedule) hash"
}

func (c14) Components() (real, stub []string) {
	return []string{"pkg/resource (labels, label_query, id_query, internal/compare, internal/kv)", "pkg/state/impl/inmem (List filter, WatchAll filter)", "pkg/state/protobuf client/server query translation", "pkg/controller/runtime/internal/cache (filtered cached list)", "pkg/controller/runtime"},
		[]string{"gRPC/HTTP2 stack (in-process transport)", "Go scheduler choice (simrt)", "OS clock (synctest)"}
}

func (c14) Decode(b []byte) (Case, error) {
	var c C14Case
	err := json.Unmarshal(b, &c)
	return &c, err
}

func genLabelOps(r *simrt.RNG, client, n, nids int, uniq *int) []WriteOp {
	var ops []WriteOp
	for i := 0; i < n; i++ {
		*uniq++
		op := WriteOp{Type: TypeA, ID: fmt.Sprintf("r%d", r.Intn(nids)), Val: fmt.Sprintf("w%d#%d", client, *uniq)}
		lab := func() string {
			key := []string{"k", "k", "z"}[r.Intn(3)]
			if r.Bool(0.15) {
				return "unlabel:" + key
			}
			return []string{"label:", "label:", "labeldo:"}[r.Intn(3)] + key + "=" + selLabelValues[r.Intn(len(selLabelValues))]
		}
		switch r.Pick([]int{3, 8, 2}) {
		case 0:
			op.Kind = "create"
			if r.Bool(0.7) {
				op.Mut = lab()
			}
		case 1:
			op.Kind = "update"
			op.Mut = lab()
			if r.Bool(0.15) {
				op.Mut = "val"
			}
		case 2:
			op.Kind = "destroy"
		}
		if r.Bool(0.3) {
			op.SleepMs = 1 + r.Intn(2000)
		}
		ops = append(ops, op)
	}
	return ops
}

func (c14) Gen(seed uint64, tier string) Case {
	r := simrt.NewRNG(seed)
	c := &C14Case{Common: Common{Prop: "C14", Seed: seed, Tier: tier}}
	ns := 1 + r.Intn(3)
	for i := 0; i < ns; i++ {
		c.Selectors = append(c.Selectors, genSelector(r))
	}
	nids := 2 + r.Intn(3)
	uniq := 0
	maxOps := 12
	if tier == "thorough" {
		maxOps = 24
	}
	for i := 0; i < 1+r.Intn(2); i++ {
		c.Writers = append(c.Writers, genLabelOps(r, i, 3+r.Intn(maxOps), nids, &uniq))
	}
	nw := 1 + r.Intn(4)
	for i := 0; i < nw; i++ {
		sw := SelWatch{Sel: r.Intn(ns), Site: []string{"direct", "remote"}[r.Intn(2)]}
		sw.Spec = WatchSpec{Type: TypeA, Kind: []string{"kind", "agg"}[r.Intn(2)], Bootstrap: r.Bool(0.6)}
		if r.Bool(0.6) {
			sw.Spec.StartMs = r.Intn(4000)
		}
		if r.Bool(0.3) {
			sw.Spec.DelayMs = 1 + r.Intn(500)
		}
		c.Watches = append(c.Watches, sw)
	}
	c.Late = genLabelOps(r, 9, r.Intn(5), nids, &uniq)
	c.Policy = genPolicy(r, []string{"writer", "watcher"})
	return c
}

func (c14) Shrink(cs Case) []Case {
	c := cs.(*C14Case)
	var out []Case
	for i := range c.Watches {
		n := cloneJSON(c)
		n.Watches = dropAt(n.Watches, i)
		out = append(out, n)
	}
	if len(c.Writers) > 1 {
		for i := range c.Writers {
			n := cloneJSON(c)
			n.Writers = dropAt(n.Writers, i)
			out = append(out, n)
		}
	}
	for i := range c.Writers {
		for j := range c.Writers[i] {
			n := cloneJSON(c)
			n.Writers[i] = dropAt(n.Writers[i], j)
			out = append(out, n)
		}
	}
	for i := range c.Late {
		n := cloneJSON(c)
		n.Late = dropAt(n.Late, i)
		out = append(out, n)
	}
	if len(c.Selectors) > 1 {
		for i := range c.Selectors {
			used := false
			for _, w := range c.Watches {
				if w.Sel == i {
					used = true
				}
			}
			if used {
				continue
			}
			n := cloneJSON(c)
			n.Selectors = dropAt(n.Selectors, i)
			for k := range n.Watches {
				if n.Watches[k].Sel > i {
					n.Watches[k].Sel--
				}
			}
			out = append(out, n)
		}
	}
	for i, s := range c.Selectors {
		for q := range s.Queries {
			if len(s.Queries) > 1 {
				n := cloneJSON(c)
				n.Selectors[i].Queries = dropAt(n.Selectors[i].Queries, q)
				out = append(out, n)
			}
			for t := range s.Queries[q] {
				if len(s.Queries[q]) > 1 {
					n := cloneJSON(c)
					n.Selectors[i].Queries[q] = dropAt(n.Selectors[i].Queries[q], t)
					out = append(out, n)
				}
			}
		}
		if s.IDRe != "" {
			n := cloneJSON(c)
			n.Selectors[i].IDRe = ""
			out = append(out, n)
		}
	}
	if c.Policy.Kind != "walk" || c.Policy.SwitchProb != 0.2 || c.Policy.PermuteMaps || c.Policy.StarvePrefix != "" || c.Policy.PreemptProb != 0 {
		n := cloneJSON(c)
		n.Policy = simrt.Policy{Kind: "walk", SwitchProb: 0.2}
		out = append(out, n)
	}
	return out
}

// expectedFiltered derives the filtered event stream from the commit log with the reference evaluator.
func expectedFiltered(log []Commit, p int, sel Selector) (snapshot map[string]Snap, evs []expectedEvent, movedIn, movedOut int) {
	st := map[string]Snap{}
	for _, c := range log[:p] {
		if c.Kind == "put" {
			st[c.ID] = c.Snap
		} else {
			delete(st, c.ID)
		}
	}
	snapshot = map[string]Snap{}
	for k, v := range st {
		if refMatchSnap(sel, v) {
			snapshot[k] = v
		}
	}
	for i := p; i < len(log); i++ {
		c := log[i]
		prev, existed := st[c.ID]
		if c.Kind == "put" {
			oldM := existed && refMatchSnap(sel, prev)
			newM := refMatchSnap(sel, c.Snap)
			switch {
			case !existed && newM:
				evs = append(evs, expectedEvent{Type: "Created", Snap: c.Snap, LogIdx: i})
			case existed && oldM && newM:
				evs = append(evs, expectedEvent{Type: "Updated", Snap: c.Snap, Old: prev, HasOld: true, LogIdx: i})
			case existed && oldM && !newM:
				evs = append(evs, expectedEvent{Type: "Destroyed", Snap: c.Snap, LogIdx: i}) // moved out of the selector
				movedOut++
			case existed && !oldM && newM:
				evs = append(evs, expectedEvent{Type: "Created", Snap: c.Snap, LogIdx: i}) // moved into the selector
				movedIn++
			}
			st[c.ID] = c.Snap
		} else {
			if existed && refMatchSnap(sel, prev) {
				evs = append(evs, expectedEvent{Type: "Destroyed", Snap: prev, LogIdx: i})
			}
			delete(st, c.ID)
		}
	}
	return snapshot, evs, movedIn, movedOut
}

func (c14) Run(t *testing.T, cs Case, trace bool) *Outcome {
	c := cs.(*C14Case)
	out := &Outcome{}
	var acks []Ack
	var ev int64
	recs := make([]*WatchRec, len(c.Watches))
	st, panics, berr := simrt.Run(t, simrt.Config{Seed: c.Seed, Policy: c.Policy, Trace: trace}, func(s *simrt.Sim) {
		w, err := NewRuntimeWorld("inmem+tap", HistCfg{}, RuntimeOpts{Cached: []string{TypeA}}, out)
		if err != nil {
			out.HarnessErr = err.Error()
			return
		}
		ctx, cancel := context.WithCancel(context.Background())
		defer cancel()
		ad, tr := remoteCore(w.Core, &TransportFaults{StreamBuf: 4}, out)
		w.Start(s, ctx)
		commits := func(ns, typ string) int {
			n := 0
			for _, cm := range w.Log {
				if cm.NS == ns && cm.Type == typ {
					n++
				}
			}
			return n
		}
		for i, ops := range c.Writers {
			wr := &writer{st: w.Core, acks: &acks, ev: &ev, out: out}
			s.Spawn(fmt.Sprintf("writer%d", i), func() {
				for _, op := range ops {
					wr.do(ctx, op)
				}
			})
		}
		for i, sw := range c.Watches {
			var st0 state.CoreState = w.Core
			if sw.Site == "remote" {
				st0 = ad
			}
			env := &watchEnv{prop: "C14", st: st0, ev: &ev, out: out, commits: commits}
			recs[i] = &WatchRec{Spec: sw.Spec, Name: fmt.Sprintf("watcher%d-%s", i, sw.Site)}
			rec := recs[i]
			sel := c.Selectors[sw.Sel]
			s.Spawn(fmt.Sprintf("watcher%d", i), func() { runWatcher(ctx, env, rec, sel.watchOpts(), nil) })
		}
		settle := func(what string) bool {
			if r := s.Settle(1000000); r != simrt.Quiescent {
				out.HarnessErr = fmt.Sprintf("C14 %s did not become quiescent: %v live=%v", what, r, s.Live())
				return false
			}
			if ps := s.Panics(); len(ps) > 0 {
				out.violate("C14/panic", "panic:"+firstLine(ps[0].Value), "task %s panicked: %s\n%s", ps[0].Task, ps[0].Value, ps[0].Stack)
				return false
			}
			tr.checkServerAlive("C14", out)
			return out.Viol == nil
		}
		if !settle("phase 1") {
			return
		}
		if len(c.Late) > 0 {
			wr := &writer{st: w.Core, acks: &acks, ev: &ev, out: out}
			s.Spawn("late", func() {
				for _, op := range c.Late {
					wr.do(ctx, op)
				}
			})
			if !settle("phase 2") {
				return
			}
		}
		// ---- lists at the sites vs. brute-force reference filter
		all, err := currentContents(w.Core, "ns1", TypeA)
		if err != nil {
			out.HarnessErr = err.Error()
			return
		}
		listAt := func(st0 state.CoreState, sel Selector) (map[string]Snap, error) {
			l, err := st0.List(ctx, resource.NewMetadata("ns1", TypeA, "", resource.VersionUndefined), sel.listOpts()...)
			if err != nil {
				return nil, err
			}
			m := map[string]Snap{}
			for _, r := range l.Items {
				m[r.Metadata().ID()] = SnapOf(r)
			}
			return m, nil
		}
		type site struct {
			name string
			st   state.CoreState
		}
		sites := []site{{"direct state", w.Core}, {"gRPC leg", ad}, {"runtime cache", w.RT.CachedState()}}
		results := map[string]map[string]Snap{}
		var listErr string
		s.Spawn("lister", func() {
			for i, sel := range c.Selectors {
				for _, si := range sites {
					m, err := listAt(si.st, sel)
					if err != nil {
						listErr = fmt.Sprintf("List at %s with selector %s failed: %v", si.name, sel, err)
						return
					}
					results[fmt.Sprintf("%d/%s", i, si.name)] = m
				}
			}
		})
		if !settle("lists") {
			return
		}
		if listErr != "" {
			out.violate("C14/list-error", "list-error", "%s", listErr)
			return
		}
		for i, sel := range c.Selectors {
			want := map[string]Snap{}
			for id, sn := range all {
				if refMatchSnap(sel, sn) {
					want[id] = sn
				}
			}
			for _, si := range sites {
				got := results[fmt.Sprintf("%d/%s", i, si.name)]
				if !snapsEqual(got, want) {
					out.violate("C14/list", "list-mismatch:"+si.name, "List with selector [%s] at the %s returns %s; the resources whose metadata satisfies it are %s (all: %s)", sel, si.name, renderObs(got), renderObs(want), renderObs(all))
					return
				}
			}
			out.probe("list-compared")
		}
		// ---- filtered streams vs. the stream derived from the commit log
		log := collectionLog(w.Log, "ns1", TypeA)
		for i, rec := range recs {
			sel := c.Selectors[c.Watches[i].Sel]
			if rec.Err != nil {
				out.violate("C14/watch-call", "watch-error", "%s: filtered watch [%s] failed: %v", rec.Name, sel, rec.Err)
				return
			}
			sp := splitStream(rec)
			if sp.problem != "" {
				out.violate("C14/stream-shape", "shape", "%s [%s]: %s\nevents: %s", rec.Name, sel, sp.problem, renderEvents(rec.Events))
				return
			}
			if sp.errored {
				continue
			}
			okP := -1
			var why []string
			for p := rec.InvokeCommit; p <= rec.RetCommit && p <= len(log); p++ {
				snapshot, exp, in, outN := expectedFiltered(log, p, sel)
				if sp.snapshotKnown && !snapsEqual(snapshot, sp.snapshot) {
					why = append(why, fmt.Sprintf("p=%d: bootstrap %s != filtered contents %s", p, renderSnapMap(sp.snapshot), renderSnapMap(snapshot)))
					continue
				}
				if len(sp.data) != len(exp) {
					why = append(why, fmt.Sprintf("p=%d: %d events delivered, the filtered change log has %d (%s)", p, len(sp.data), len(exp), describeExp(exp)))
					continue
				}
				bad := ""
				for j, e := range sp.data {
					x := exp[j]
					if e.Type != x.Type || e.Snap != x.Snap || e.HasOld != x.HasOld || (x.HasOld && e.Old != x.Old) {
						bad = fmt.Sprintf("p=%d: event %d is %s, the filtered change log says %s(%s@%s labels=[%s])", p, j, e.String(), x.Type, x.Snap.ID, x.Snap.Version, x.Snap.Labels)
						break
					}
					if bp, ok := bookmarkPos(e.Bookmark); !ok || int(bp) != x.LogIdx {
						bad = fmt.Sprintf("p=%d: event %d (%s) carries bookmark %x, not the bookmark of commit %d", p, j, e.String(), e.Bookmark, x.LogIdx)
						break
					}
				}
				if bad != "" {
					why = append(why, bad)
					continue
				}
				okP = p
				if in > 0 && outN > 0 {
					out.Nontrivial = true
				}
				if in > 0 {
					out.probe("moved-into-selector")
				}
				if outN > 0 {
					out.probe("moved-out-of-selector")
				}
				break
			}
			if okP < 0 {
				out.violate("C14/filtered-stream", "filtered-stream:"+c.Watches[i].Site+":"+rec.Spec.Kind, "%s: the kind watch filtered by [%s] is not an exact change log of the filtered set:\n  %s\nevents: %s\nlog: %s", rec.Name, sel, strings.Join(why, "\n  "), renderEvents(rec.Events), renderLogFull(w.Log, ""))
				return
			}
			out.probe("filtered-stream-compared")
		}
		if trace {
			out.Trace = s.Trace()
			for i, rec := range recs {
				out.Notes = append(out.Notes, fmt.Sprintf("%s sel=[%s]: %s", rec.Name, c.Selectors[c.Watches[i].Sel], renderEvents(rec.Events)))
			}
			out.Notes = append(out.Notes, "log: "+renderLogFull(w.Log, ""))
		}
		cancel()
		s.Settle(500000)
	})
	out.finish(st, panics, berr, true)
	return out
}
