package worlds

import (
	"context"
	"encoding/json"
	"errors"
	"fmt"
	"os"
	"path/filepath"
	"sort"
	"strings"
	"testing"
	"time"

	"go.etcd.io/bbolt"

	"github.com/cosi-project/runtime/pkg/controller/runtime/zzverif/simrt"
	"github.com/cosi-project/runtime/pkg/resource"
	"github.com/cosi-project/runtime/pkg/state"
	"github.com/cosi-project/runtime/pkg/state/impl/inmem"
	"github.com/cosi-project/runtime/pkg/state/impl/namespaced"
	"github.com/cosi-project/runtime/pkg/state/impl/store"
	"github.com/cosi-project/runtime/pkg/state/impl/store/bolt"
	"github.com/cosi-project/runtime/pkg/state/impl/store/compression"
	"github.com/cosi-project/runtime/pkg/state/impl/store/encryption"
)

// ---------------------------------------------------------------------------
// C10 — persistent store: acked writes survive crashes; memory never diverges (DESIGN §7 C10, fault_enumeration)

// PersistOp is one operation against the persistent state.
type PersistOp struct {
	Kind  string `json:"kind"` // create | update | destroy | teardown | addfin | remfin | label | annot
	NS    string `json:"ns"`
	Type  string `json:"type"`
	ID    string `json:"id"`
	Val   string `json:"val,omitempty"`
	Fin   string `json:"fin,omitempty"`
	Owner string `json:"owner,omitempty"`
	Big   bool   `json:"big,omitempty"` // large payload (above the compression threshold)
}

// PersistFault is one injected fault.
type PersistFault struct {
	Point string `json:"point"` // store-before | store-after | a bbolt failpoint name
	Hit   int    `json:"hit"`   // n-th time the point is reached (1-based)
}

// C10Case is a C10 history; crash points and error positions are enumerated inside Run.
type C10Case struct {
	Common
	Stack   string        `json:"stack"` // proto | zstd-small | zstd-large | enc | zstd-enc | enc-zstd
	Ops     []PersistOp   `json:"ops,omitempty"`
	Clients [][]PersistOp `json:"clients,omitempty"` // concurrent clients (memory/disk divergence under contention)
	Post    []PersistOp   `json:"post,omitempty"`    // issued after the restart, to the restarted and to the surviving state
	Only    *PersistFault `json:"only,omitempty"`    // minimised replay: only this error injection
	MaxErr  int           `json:"max_err,omitempty"` // bound on error-injection runs in the quick tier
}

type c10 struct{}

func init() { register(c10{}) }

func (c10) ID() string { return "C10" }

func (c10) Rule() string {
	return "case = marshaler stack (protobuf, zstd below/above the size threshold, AES-GCM encryption, both stackings) over the real bolt NamespacedBackingStore over a real bbolt file (tmpfs scratch) + <=10 operations over 2 namespaces, 2 types, 3 ids (create/update/destroy/teardown/finalizers/labels/annotations, small and large payloads) or 2 concurrent clients; for every case: ONE execution snapshots the db file before and after every backing-store call and at every bbolt failpoint inside every commit (each snapshot is reopened by a fresh stack and compared field by field with the in-memory contents before/after the operation in flight), then EVERY (error point, occurrence) - store call failing before or after applying, bbolt lackOfDiskSpace / beforeWriteMetaError / resizeFileError / mapError - is injected in its own execution, then Load failures, wrong key and tampered records (encrypted stacks), and post-restart operations applied to the restarted and the surviving state; non-trivial = >=20 crash snapshots and >=3 error injections were checked; distinct = distinct hash over the sub-run schedules"
}

func (c10) Components() (real, stub []string) {
	return []string{"pkg/state/impl/inmem (loadStore, store-before-publish ordering)", "pkg/state/impl/store/bolt", "pkg/state/impl/store (protobuf marshaler), compression (zstd), encryption (AES-GCM)", "go.etcd.io/bbolt v1.5.0 (real file I/O; its gofail markers turned into hook calls in a scratch copy)", "pkg/state/impl/namespaced"},
		[]string{"power-loss semantics (lost/torn unsynced writes) are NOT modelled: crash = process crash, page cache survives", "Go scheduler choice (simrt)", "OS clock (synctest)"}
}

func (c10) Decode(b []byte) (Case, error) {
	var c C10Case
	err := json.Unmarshal(b, &c)
	return &c, err
}

var stacks = []string{"proto", "zstd-small", "zstd-large", "enc", "zstd-enc", "enc-zstd"}

func genPersistOps(r *simrt.RNG, client, n int, nss []string, uniq *int) []PersistOp {
	var ops []PersistOp
	for i := 0; i < n; i++ {
		*uniq++
		op := PersistOp{NS: nss[r.Intn(len(nss))], Type: []string{TypeA, TypeB}[r.Pick([]int{3, 1})], ID: fmt.Sprintf("r%d", r.Intn(3)), Val: fmt.Sprintf("p%d_%d", client, *uniq)}
		op.Kind = []string{"create", "update", "destroy", "teardown", "addfin", "remfin", "label", "annot", "rawupdate", "freshupdate"}[r.Pick([]int{5, 5, 2, 1, 2, 2, 2, 2, 3, 2})]
		op.Fin = []string{"f1", "f2"}[r.Intn(2)]
		op.Owner = []string{"", "A"}[r.Pick([]int{3, 1})]
		op.Big = r.Bool(0.3)
		ops = append(ops, op)
	}
	return ops
}

func (c10) Gen(seed uint64, tier string) Case {
	r := simrt.NewRNG(seed)
	c := &C10Case{Common: Common{Prop: "C10", Seed: seed, Tier: tier}}
	c.Stack = stacks[r.Intn(len(stacks))]
	uniq := 0
	n := 3 + r.Intn(8)
	if tier == "thorough" {
		n = 5 + r.Intn(12)
	}
	if r.Bool(0.25) {
		// two concurrent clients; client 0 works in ns1, client 1 mostly in ns2 but sometimes on the same resources
		second := []string{"ns2", "ns2", "ns1"}
		if r.Bool(0.5) {
			second = []string{"ns1"} // full contention on the same resources
		}
		c.Clients = [][]PersistOp{genPersistOps(r, 0, n, []string{"ns1"}, &uniq), genPersistOps(r, 1, n, second, &uniq)}
		if r.Bool(0.5) {
			// a short fight over one resource: single-shot updates and destroys from the same version
			c.Clients = nil
			for ci := 0; ci < 2+r.Intn(2); ci++ {
				var ops []PersistOp
				if ci == 0 {
					uniq++
					ops = append(ops, PersistOp{Kind: "create", NS: "ns1", Type: TypeA, ID: "r0", Val: fmt.Sprintf("p%d_%d", ci, uniq)})
				}
				for k := 0; k < 1+r.Intn(3); k++ {
					uniq++
					ops = append(ops, PersistOp{Kind: []string{"rawupdate", "rawupdate", "update", "destroy", "create"}[r.Intn(5)], NS: "ns1", Type: TypeA, ID: "r0", Val: fmt.Sprintf("p%d_%d", ci, uniq), Big: r.Bool(0.3)})
				}
				c.Clients = append(c.Clients, ops)
			}
		}
	} else {
		c.Ops = genPersistOps(r, 0, n, []string{"ns1", "ns1", "ns2"}, &uniq)
	}
	c.Post = genPersistOps(r, 7, 1+r.Intn(4), []string{"ns1", "ns2"}, &uniq)
	if tier != "thorough" {
		c.MaxErr = 12
	}
	c.Policy = genPolicy(r, []string{"client"})
	return c
}

func (c10) Shrink(cs Case) []Case {
	c := cs.(*C10Case)
	var out []Case
	for i := range c.Ops {
		n := cloneJSON(c)
		n.Ops = dropAt(n.Ops, i)
		out = append(out, n)
	}
	for ci := range c.Clients {
		for i := range c.Clients[ci] {
			n := cloneJSON(c)
			n.Clients[ci] = dropAt(n.Clients[ci], i)
			out = append(out, n)
		}
	}
	for i := range c.Post {
		n := cloneJSON(c)
		n.Post = dropAt(n.Post, i)
		out = append(out, n)
	}
	if c.Stack != "proto" {
		n := cloneJSON(c)
		n.Stack = "proto"
		out = append(out, n)
	}
	for i, op := range c.Ops {
		if op.Big {
			n := cloneJSON(c)
			n.Ops[i].Big = false
			out = append(out, n)
		}
	}
	if c.Policy.Kind != "walk" || c.Policy.SwitchProb != 0.2 || c.Policy.PermuteMaps || c.Policy.StarvePrefix != "" || c.Policy.PreemptProb != 0 {
		n := cloneJSON(c)
		n.Policy = simrt.Policy{Kind: "walk", SwitchProb: 0.2}
		out = append(out, n)
	}
	return out
}

var storeKey = []byte("0123456789abcdef0123456789abcdef")
var wrongKey = []byte("ffffffffffffffffffffffffffffffff")

func buildMarshaler(stack string, key []byte) store.Marshaler {
	var m store.Marshaler = store.ProtobufMarshaler{}
	enc := func(u store.Marshaler) store.Marshaler {
		return encryption.NewMarshaler(u, encryption.NewCipher(encryption.KeyProviderFunc(func() ([]byte, error) { return key, nil })))
	}
	switch stack {
	case "zstd-small":
		m = compression.NewMarshaler(m, compression.ZStd(), 16)
	case "zstd-large":
		m = compression.NewMarshaler(m, compression.ZStd(), 600)
	case "enc":
		m = enc(m)
	case "zstd-enc": // compression over encryption
		m = compression.NewMarshaler(enc(m), compression.ZStd(), 300)
	case "enc-zstd": // encryption over compression
		m = enc(compression.NewMarshaler(m, compression.ZStd(), 300))
	}
	return m
}

// faultyStore wraps the real namespaced bolt store: snapshots and error injection around every call.
type faultyStore struct {
	inner inmem.BackingStore
	pw    *persistWorld
}

func (f *faultyStore) Load(ctx context.Context, h inmem.LoadHandler) (err error) {
	// the load handler runs inside a bbolt read transaction (which holds bbolt's mmap lock): no scheduling points
	simrt.Atomic(func() { err = f.load(ctx, h) })
	return err
}

func (f *faultyStore) load(ctx context.Context, h inmem.LoadHandler) error {
	pw := f.pw
	if pw.loadFailAt >= 0 {
		n := 0
		err := f.inner.Load(ctx, func(t resource.Type, r resource.Resource) error {
			if n == pw.loadFailAt && pw.loadFailAt >= 0 {
				pw.loadFailAt = -1
				pw.out.fault("load-error")
				return errInjected
			}
			n++
			return h(t, r)
		})
		if err == nil && pw.loadFailAt >= 0 {
			// fewer records than the fail index: fail the call itself once
			pw.loadFailAt = -1
			pw.out.fault("load-error")
			return errInjected
		}
		return err
	}
	return f.inner.Load(ctx, h)
}

var errInjected = errors.New("injected backing store failure")

func (f *faultyStore) Put(ctx context.Context, t resource.Type, r resource.Resource) error {
	if f.pw.point("store-before") {
		return errInjected
	}
	err := f.inner.Put(ctx, t, r)
	if err == nil && f.pw.point("store-after") {
		f.pw.appliedButFailed[t+"/"+r.Metadata().Namespace()+"/"+r.Metadata().ID()] = true
		return errInjected
	}
	return err
}

func (f *faultyStore) Destroy(ctx context.Context, t resource.Type, p resource.Pointer) error {
	if f.pw.point("store-before") {
		return errInjected
	}
	err := f.inner.Destroy(ctx, t, p)
	if err == nil && f.pw.point("store-after") {
		f.pw.appliedButFailed[t+"/"+p.Namespace()+"/"+p.ID()] = true
		return errInjected
	}
	return err
}

type snapshot struct {
	label string
	opIdx int
	data  []byte
}

// persistWorld is one stack on one db file.
type persistWorld struct {
	path             string
	stack            string
	db               *bbolt.DB
	bs               *bolt.BackingStore
	st               state.State
	out              *Outcome
	hits             map[string]int
	snapAll          bool
	snaps            []snapshot
	opIdx            int
	inject           *PersistFault
	injected         bool
	appliedButFailed map[string]bool
	loadFailAt       int
	errPoints        map[string]bool
	live             bool // fault points count only while the client operations run
}

var bboltErrorPoints = map[string]bool{"lackOfDiskSpace": true, "beforeWriteMetaError": true, "resizeFileError": true, "mapError": true}

// point is reached at every fault point; returns true if an error is to be injected here.
func (pw *persistWorld) point(name string) bool {
	if !pw.live {
		return false
	}
	pw.hits[name]++
	if pw.snapAll {
		if b, err := os.ReadFile(pw.path); err == nil {
			pw.snaps = append(pw.snaps, snapshot{label: fmt.Sprintf("%s#%d", name, pw.hits[name]), opIdx: pw.opIdx, data: b})
		}
	}
	if pw.inject != nil && !pw.injected && pw.inject.Point == name && pw.inject.Hit == pw.hits[name] {
		pw.injected = true
		pw.out.fault("error:" + name)
		return true
	}
	return false
}

func openPersist(path, stack string, key []byte, out *Outcome) (*persistWorld, error) {
	pw := &persistWorld{path: path, stack: stack, out: out, hits: map[string]int{}, appliedButFailed: map[string]bool{}, loadFailAt: -1}
	bs, err := bolt.NewBackingStore(func() (*bbolt.DB, error) {
		db, err := bbolt.Open(path, 0o600, &bbolt.Options{})
		pw.db = db
		return db, err
	}, buildMarshaler(stack, key))
	if err != nil {
		return nil, err
	}
	pw.bs = bs
	core := namespaced.NewState(func(ns resource.Namespace) state.CoreState {
		return inmem.NewStateWithOptions(inmem.WithBackingStore(&faultyStore{inner: bs.WithNamespace(ns), pw: pw}))(ns)
	})
	pw.st = state.WrapCore(core)
	return pw, nil
}

func (pw *persistWorld) close() {
	if pw.bs != nil {
		_ = pw.bs.Close()
	}
}

func bigPayload(val string) []string {
	// ~1 KiB of poorly compressible but deterministic tokens
	var toks []string
	for i := 0; i < 60; i++ {
		toks = append(toks, fmt.Sprintf("%s-%d-%x", val, i, simrt.SplitMix64(uint64(i)*7919+uint64(len(val)))))
	}
	return toks
}

func (pw *persistWorld) apply(ctx context.Context, op PersistOp) error {
	st := pw.st
	ptr := resource.NewMetadata(op.NS, op.Type, op.ID, resource.VersionUndefined)
	switch op.Kind {
	case "create":
		r := NewRes(op.NS, op.Type, op.ID, op.Val)
		if op.Big {
			SpecOf(r).Tokens = bigPayload(op.Val)
		}
		r.Metadata().Labels().Set("made-by", op.Val)
		return st.Create(ctx, r, state.WithCreateOwner(op.Owner))
	case "update":
		_, err := st.UpdateWithConflicts(ctx, ptr, func(r resource.Resource) error {
			SpecOf(r).Val = op.Val
			if op.Big {
				SpecOf(r).Tokens = bigPayload(op.Val)
			} else {
				SpecOf(r).Tokens = nil
			}
			return nil
		}, state.WithUpdateOwner(op.Owner), state.WithExpectedPhaseAny())
		return err
	case "rawupdate":
		// a single Get + Update without conflict retry
		r, err := st.Get(ctx, ptr)
		if err != nil {
			return err
		}
		simrt.Yield("client.between-get-update")
		SpecOf(r).Val = op.Val
		return st.Update(ctx, r, state.WithUpdateOwner(op.Owner), state.WithExpectedPhaseAny())
	case "freshupdate":
		// Update with an object built from scratch (current version and owner set by hand, a creation time of its own):
		// the stored creation time must survive, in memory and on disk
		cur, err := st.Get(ctx, ptr)
		if err != nil {
			return err
		}
		r := NewRes(op.NS, op.Type, op.ID, op.Val)
		if op.Big {
			SpecOf(r).Tokens = bigPayload(op.Val)
		}
		r.Metadata().SetVersion(cur.Metadata().Version())
		_ = r.Metadata().SetOwner(cur.Metadata().Owner())
		r.Metadata().SetPhase(cur.Metadata().Phase())
		r.Metadata().SetCreated(time.Date(1990, 1, 1, 0, 0, 0, 0, time.UTC))
		return st.Update(ctx, r, state.WithUpdateOwner(op.Owner), state.WithExpectedPhaseAny())
	case "destroy":
		return st.Destroy(ctx, ptr, state.WithDestroyOwner(op.Owner))
	case "teardown":
		_, err := st.Teardown(ctx, ptr, state.WithTeardownOwner(op.Owner))
		return err
	case "addfin":
		return st.AddFinalizer(ctx, ptr, op.Fin)
	case "remfin":
		return st.RemoveFinalizer(ctx, ptr, op.Fin)
	case "label":
		_, err := st.UpdateWithConflicts(ctx, ptr, func(r resource.Resource) error {
			r.Metadata().Labels().Set("k", op.Val)
			return nil
		}, state.WithUpdateOwner(op.Owner), state.WithExpectedPhaseAny())
		return err
	case "annot":
		_, err := st.UpdateWithConflicts(ctx, ptr, func(r resource.Resource) error {
			r.Metadata().Annotations().Set("note", op.Val)
			return nil
		}, state.WithUpdateOwner(op.Owner), state.WithExpectedPhaseAny())
		return err
	}
	return nil
}

// contents lists everything (2 namespaces x 2 types).
func contentsOf(ctx context.Context, st state.CoreState) (map[string]Snap, error) {
	out := map[string]Snap{}
	for _, ns := range []string{"ns1", "ns2"} {
		for _, typ := range []string{TypeA, TypeB} {
			l, err := st.List(ctx, resource.NewMetadata(ns, typ, "", resource.VersionUndefined))
			if err != nil {
				return nil, err
			}
			for _, r := range l.Items {
				out[ns+"/"+typ+"/"+r.Metadata().ID()] = SnapOf(r)
			}
		}
	}
	return out, nil
}

func renderContents(m map[string]Snap) string {
	keys := make([]string, 0, len(m))
	for k := range m {
		keys = append(keys, k)
	}
	sort.Strings(keys)
	var parts []string
	for _, k := range keys {
		s := m[k]
		parts = append(parts, fmt.Sprintf("%s@%s[%s owner=%q fins=%s labels=%s annots=%s val=%s tokens#%d]", k, s.Version, s.Phase, s.Owner, s.Fins, s.Labels, s.Annots, s.Val, len(s.Tokens)))
	}
	return "{" + strings.Join(parts, " ") + "}"
}

func contentsEqual(a, b map[string]Snap) bool { return snapsEqual(a, b) }

func scratchDir() string {
	if v := os.Getenv("VERIF_SCRATCH"); v != "" {
		return v
	}
	if fi, err := os.Stat("/dev/shm"); err == nil && fi.IsDir() {
		return "/dev/shm"
	}
	return os.TempDir()
}

// reopen opens a fresh stack on a copy of the snapshot and lists it.
func reopenSnapshot(ctx context.Context, dir string, data []byte, stack string, key []byte, out *Outcome, n *int) (map[string]Snap, *persistWorld, error) {
	*n++
	p := filepath.Join(dir, fmt.Sprintf("reopen-%d.db", *n))
	if err := os.WriteFile(p, data, 0o600); err != nil {
		return nil, nil, err
	}
	pw, err := openPersist(p, stack, key, out)
	if err != nil {
		return nil, nil, fmt.Errorf("open: %w", err)
	}
	m, err := contentsOf(ctx, pw.st)
	if err != nil {
		pw.close()
		return nil, nil, fmt.Errorf("load: %w", err)
	}
	return m, pw, nil
}

type c10Sub struct {
	out    *Outcome
	steps  int64
	hash   uint64
	points []PersistFault // error points reachable (baseline run)
	nsnaps int
}

// runC10 executes the history once. inject == nil: baseline with passive crash snapshots at every point.
func runC10(t *testing.T, c *C10Case, inject *PersistFault, trace bool) *c10Sub {
	sub := &c10Sub{out: &Outcome{}}
	out := sub.out
	dir, err := os.MkdirTemp(scratchDir(), "verif-c10-")
	if err != nil {
		out.HarnessErr = err.Error()
		return sub
	}
	defer os.RemoveAll(dir)
	st, panics, berr := simrt.Run(t, simrt.Config{Seed: c.Seed, Policy: c.Policy, Trace: trace}, func(s *simrt.Sim) {
		ctx, cancel := context.WithCancel(context.Background())
		defer cancel()
		pw, err := openPersist(filepath.Join(dir, "main.db"), c.Stack, storeKey, out)
		if err != nil {
			out.HarnessErr = "open: " + err.Error()
			return
		}
		defer pw.close()
		defer func() { bbolt.VerifFailpoint, bbolt.VerifTxEnter = nil, nil }()
		bbolt.VerifTxEnter = func() func() { return simrt.AtomicEnter("bbolt.tx") }
		pw.snapAll = inject == nil
		pw.inject = inject
		pw.live = true
		bbolt.VerifFailpoint = func(name string) string {
			if pw.point(name) {
				return "injected " + name
			}
			return ""
		}
		// a watcher that must never see a rejected write
		var ev int64
		rec := &WatchRec{Spec: WatchSpec{Kind: "kind", NS: "ns1", Type: TypeA}, Name: "watcher"}
		env := &watchEnv{prop: "C10", st: pw.st, ev: &ev, out: out, commits: func(string, string) int { return 0 }}
		s.Spawn("watcher", func() { runWatcher(ctx, env, rec, nil, nil) })
		s.Settle(10000)
		var expect []map[string]Snap // expect[k] = memory after k operations
		var failedVals []string
		var opErrs []error
		capture := func() bool {
			m, err := contentsOf(ctx, pw.st)
			if err != nil {
				out.HarnessErr = "list: " + err.Error()
				return false
			}
			expect = append(expect, m)
			return true
		}
		seq := c.Ops
		if len(c.Clients) > 0 {
			// concurrent clients: only the final state is compared
			for ci, ops := range c.Clients {
				s.Spawn(fmt.Sprintf("client%d", ci), func() {
					for _, op := range ops {
						simrt.Yield("client.op")
						_ = pw.apply(ctx, op)
					}
				})
			}
			pw.snapAll = false
			if r := s.Settle(800000); r != simrt.Quiescent {
				out.HarnessErr = fmt.Sprintf("C10 concurrent run did not become quiescent: %v live=%v", r, s.Live())
				return
			}
		} else {
			s.Spawn("client0", func() {
				if !capture() {
					return
				}
				for k, op := range seq {
					pw.opIdx = k + 1
					simrt.Yield("client.op")
					before := pw.injected
					err := pw.apply(ctx, op)
					opErrs = append(opErrs, err)
					if !before && pw.injected {
						failedVals = append(failedVals, op.Val)
						if err == nil {
							out.violate("C10/rejected-write-acked", "rejected-write-acked:"+inject.Point, "operation %d %+v reported success although the backing store rejected its write (%s occurrence %d)", k, op, inject.Point, inject.Hit)
						}
					}
					if !capture() {
						return
					}
				}
			})
			if r := s.Settle(800000); r != simrt.Quiescent {
				out.HarnessErr = fmt.Sprintf("C10 run did not become quiescent: %v live=%v", r, s.Live())
				return
			}
		}
		pw.live = false
		if ps := s.Panics(); len(ps) > 0 {
			out.violate("C10/panic", "panic:"+firstLine(ps[0].Value), "task %s panicked: %s\n%s", ps[0].Task, ps[0].Value, ps[0].Stack)
			return
		}
		if out.Viol != nil || out.HarnessErr != "" {
			return
		}
		final, err := contentsOf(ctx, pw.st)
		if err != nil {
			out.HarnessErr = "final list: " + err.Error()
			return
		}
		// (C) a rejected write is not observable: memory unchanged, watcher silent
		if inject != nil && pw.injected && len(c.Clients) == 0 {
			for k := range seq {
				if opErrs[k] != nil && errors.Is(opErrs[k], errInjected) || (opErrs[k] != nil && strings.Contains(opErrs[k].Error(), "injected")) {
					if !contentsEqual(expect[k], expect[k+1]) {
						out.violate("C10/rejected-write-visible", "rejected-write-in-memory:"+inject.Point, "operation %d %+v failed because the backing store rejected the write (%s #%d), but the in-memory contents changed: before %s after %s", k, seq[k], inject.Point, inject.Hit, renderContents(expect[k]), renderContents(expect[k+1]))
						return
					}
				}
			}
			for _, e := range rec.Events {
				for _, fv := range failedVals {
					if e.Snap.Val == fv || strings.Contains(e.Snap.Labels, "="+fv+";") || strings.Contains(e.Snap.Annots, "="+fv+";") {
						out.violate("C10/rejected-write-visible", "rejected-write-watched:"+inject.Point, "a watcher received %s although that write was rejected by the backing store (%s #%d)", e.String(), inject.Point, inject.Hit)
						return
					}
				}
			}
		}
		// error points reachable in this history (for the enumeration)
		if inject == nil {
			for name, n := range pw.hits {
				if name == "store-before" || name == "store-after" || bboltErrorPoints[name] {
					for h := 1; h <= n; h++ {
						sub.points = append(sub.points, PersistFault{Point: name, Hit: h})
					}
				}
			}
			sort.Slice(sub.points, func(i, j int) bool {
				if sub.points[i].Point != sub.points[j].Point {
					return sub.points[i].Point < sub.points[j].Point
				}
				return sub.points[i].Hit < sub.points[j].Hit
			})
		}
		nre := 0
		// (A) every crash snapshot reopens to the memory contents before or after the operation in flight
		for _, sn := range pw.snaps {
			got, rpw, err := reopenSnapshot(ctx, dir, sn.data, c.Stack, storeKey, out, &nre)
			if err != nil {
				out.violate("C10/crash-recovery", "reopen-failed:"+strings.Split(sn.label, "#")[0], "crash at %s during operation %d: the db file cannot be reopened / loaded: %v", sn.label, sn.opIdx, err)
				return
			}
			rpw.close()
			k := sn.opIdx
			okPrev := k >= 1 && contentsEqual(got, expect[k-1])
			okNext := k < len(expect) && contentsEqual(got, expect[k])
			if k == 0 {
				okPrev = contentsEqual(got, expect[0])
			}
			if !okPrev && !okNext {
				out.violate("C10/crash-recovery", "crash-state:"+strings.Split(sn.label, "#")[0], "crash at %s during operation %d (%+v): the reopened state %s is neither the state before the operation %s nor after it %s", sn.label, k, seq[max(k-1, 0)], renderContents(got), renderContents(expect[max(k-1, 0)]), renderContents(expect[min(k, len(expect)-1)]))
				return
			}
			out.probe("crash-snapshot-checked")
			sub.nsnaps++
		}
		// (B) at the end the disk equals memory (but for an applied-yet-rejected write that nothing overwrote)
		data, err := os.ReadFile(pw.path)
		if err != nil {
			out.HarnessErr = err.Error()
			return
		}
		got, rpw, err := reopenSnapshot(ctx, dir, data, c.Stack, storeKey, out, &nre)
		if err != nil {
			out.violate("C10/crash-recovery", "reopen-failed:final", "after all operations the db file cannot be reopened / loaded: %v", err)
			return
		}
		diverged := ""
		for k, v := range final {
			if got[k] != v && !pw.appliedButFailed[keyOf(k)] {
				diverged = fmt.Sprintf("%s: memory %+v, disk %+v", k, v, got[k])
			}
		}
		for k, v := range got {
			if _, ok := final[k]; !ok && !pw.appliedButFailed[keyOf(k)] {
				diverged = fmt.Sprintf("%s: absent in memory, on disk %+v", k, v)
			}
		}
		if diverged != "" {
			rpw.close()
			sig := "memory-disk-divergence"
			if inject != nil {
				sig += ":" + inject.Point
			} else if len(c.Clients) > 0 {
				sig += ":concurrent"
			}
			out.violate("C10/divergence", sig, "after all operations were acknowledged the persisted state differs from the in-memory state: %s\nmemory: %s\ndisk:   %s", diverged, renderContents(final), renderContents(got))
			return
		}
		out.probe("final-reopen-equal")
		// post-restart operations behave as if no restart happened (only when disk == memory exactly)
		if len(pw.appliedButFailed) == 0 && inject == nil {
			for i, op := range c.Post {
				e1 := pw.apply(ctx, op)
				e2 := rpw.apply(ctx, op)
				if errClassOf(e1) != errClassOf(e2) {
					rpw.close()
					out.violate("C10/post-restart", "post-restart-divergence", "post-restart operation %d %+v: the surviving state answers %v, the restarted state %v", i, op, e1, e2)
					return
				}
			}
			m1, err1 := contentsOf(ctx, pw.st)
			m2, err2 := contentsOf(ctx, rpw.st)
			if err1 != nil || err2 != nil {
				out.HarnessErr = fmt.Sprintf("post lists: %v %v", err1, err2)
				rpw.close()
				return
			}
			// timestamps of the post operations are taken at the same virtual instant in both
			if !contentsEqual(m1, m2) {
				rpw.close()
				out.violate("C10/post-restart", "post-restart-state", "after the same post-restart operations the restarted state %s differs from the surviving state %s", renderContents(m2), renderContents(m1))
				return
			}
			out.probe("post-restart-equal")
		}
		rpw.close()
		// (D)/(E) on the final snapshot, baseline run only
		if inject == nil {
			finalData := data
			// load failure is retried without duplicating or losing anything
			for _, failAt := range []int{0, 1, 3} {
				nre++
				p := filepath.Join(dir, fmt.Sprintf("loadfault-%d.db", nre))
				_ = os.WriteFile(p, finalData, 0o600)
				lw, err := openPersist(p, c.Stack, storeKey, out)
				if err != nil {
					out.HarnessErr = "open: " + err.Error()
					return
				}
				lw.loadFailAt = failAt
				_, err = contentsOf(ctx, lw.st)
				if err == nil && len(final) > failAt {
					lw.close()
					out.violate("C10/load-failure", "load-error-swallowed", "the backing store failed while loading record %d but the first read succeeded", failAt)
					return
				}
				m, err := contentsOf(ctx, lw.st)
				lw.close()
				if err != nil {
					out.violate("C10/load-failure", "load-not-retried", "after a failed Load the next operation still fails: %v", err)
					return
				}
				if !contentsEqual(m, final) {
					out.violate("C10/load-failure", "load-retry-state", "after a Load that failed at record %d and was retried, the state %s differs from the persisted one %s", failAt, renderContents(m), renderContents(final))
					return
				}
				out.probe("load-retry-checked")
			}
			if strings.Contains(c.Stack, "enc") && len(final) > 0 {
				// wrong key
				if m, rp, err := reopenSnapshot(ctx, dir, finalData, c.Stack, wrongKey, out, &nre); err == nil {
					rp.close()
					out.violate("C10/tamper", "wrong-key-accepted", "the store opened with a wrong key loaded %s", renderContents(m))
					return
				}
				out.probe("wrong-key-rejected")
				// tamper with one stored value
				nre++
				p := filepath.Join(dir, fmt.Sprintf("tamper-%d.db", nre))
				_ = os.WriteFile(p, finalData, 0o600)
				if tamperOne(p, int(c.Seed%7)) {
					tw, err := openPersist(p, c.Stack, storeKey, out)
					if err == nil {
						m, err := contentsOf(ctx, tw.st)
						tw.close()
						if err == nil && !contentsEqual(m, final) {
							out.violate("C10/tamper", "tampered-record-accepted", "a tampered encrypted record was accepted and yields a different resource: %s vs %s", renderContents(m), renderContents(final))
							return
						}
						if err == nil {
							out.violate("C10/tamper", "tampered-record-accepted", "a tampered encrypted record was loaded without an error")
							return
						}
						out.probe("tamper-rejected")
					}
				}
			}
		}
		if trace {
			out.Trace = s.Trace()
			out.Notes = append(out.Notes, fmt.Sprintf("inject=%+v hits=%v snaps=%d final=%s", inject, pw.hits, len(pw.snaps), renderContents(final)))
		}
		cancel()
		s.Settle(100000)
	})
	out.finish(st, panics, berr, true)
	sub.steps, sub.hash = st.Steps, st.TraceHash
	return sub
}

// keyOf turns "ns/type/id" into the appliedButFailed key "type/ns/id".
func keyOf(k string) string {
	p := strings.SplitN(k, "/", 3)
	if len(p) != 3 {
		return k
	}
	return p[1] + "/" + p[0] + "/" + p[2]
}

// tamperOne flips a bit in the n-th stored value of the db file; returns false if there is nothing to tamper with.
func tamperOne(path string, n int) bool {
	db, err := bbolt.Open(path, 0o600, &bbolt.Options{})
	if err != nil {
		return false
	}
	defer db.Close()
	done := false
	_ = db.Update(func(tx *bbolt.Tx) error {
		type loc struct{ b1, b2, k, v []byte }
		var all []loc
		_ = tx.ForEach(func(n1 []byte, b *bbolt.Bucket) error {
			return b.ForEachBucket(func(n2 []byte) error {
				tb := b.Bucket(n2)
				return tb.ForEach(func(k, v []byte) error {
					all = append(all, loc{append([]byte(nil), n1...), append([]byte(nil), n2...), append([]byte(nil), k...), append([]byte(nil), v...)})
					return nil
				})
			})
		})
		if len(all) == 0 {
			return nil
		}
		l := all[n%len(all)]
		if len(l.v) < 20 {
			return nil
		}
		l.v[len(l.v)/2] ^= 0x10
		done = true
		return tx.Bucket(l.b1).Bucket(l.b2).Put(l.k, l.v)
	})
	return done
}

func (c10) Run(t *testing.T, cs Case, trace bool) *Outcome {
	c := cs.(*C10Case)
	total := &Outcome{}
	merge := func(sub *c10Sub) bool {
		total.Stats.Steps += sub.steps
		total.Stats.TraceHash = simrt.Mix(total.Stats.TraceHash, sub.hash)
		total.Stats.Switches += sub.out.Stats.Switches
		total.Stats.SimTime += sub.out.Stats.SimTime
		total.Stats.Quiescences += sub.out.Stats.Quiescences
		total.Stats.Tasks += sub.out.Stats.Tasks
		total.Stats.Adoptions += sub.out.Stats.Adoptions
		for k, v := range sub.out.Probes {
			total.probeN(k, v)
		}
		for k, v := range sub.out.Faults {
			if total.Faults == nil {
				total.Faults = map[string]int{}
			}
			total.Faults[k] += v
		}
		total.probe("subruns")
		if trace {
			total.Trace = append(total.Trace, sub.out.Trace...)
			total.Notes = append(total.Notes, sub.out.Notes...)
		}
		if sub.out.HarnessErr != "" {
			total.HarnessErr = sub.out.HarnessErr
			return false
		}
		if sub.out.Viol != nil {
			total.Viol = sub.out.Viol
			return false
		}
		return true
	}
	if c.Only != nil {
		merge(runC10(t, c, c.Only, trace))
		return total
	}
	base := runC10(t, c, nil, trace)
	if !merge(base) {
		return total
	}
	points := base.points
	if len(c.Clients) > 0 {
		points = nil // error enumeration is done on sequential histories
	}
	if c.MaxErr > 0 && len(points) > c.MaxErr {
		r := simrt.NewRNG(c.Seed ^ 0xe77)
		perm := r.Perm(len(points))
		var pick []PersistFault
		for _, i := range perm[:c.MaxErr] {
			pick = append(pick, points[i])
		}
		points = pick
		total.probe("error-enumeration-sampled")
	} else if len(points) > 0 {
		total.probe("error-enumeration-complete")
	}
	nerr := 0
	for i := range points {
		f := points[i]
		sub := runC10(t, c, &f, trace)
		nerr++
		if !merge(sub) {
			if total.Viol != nil {
				c.Only = &f
			}
			return total
		}
	}
	total.Nontrivial = base.nsnaps >= 20 && nerr >= 3 || len(c.Clients) > 0 && total.Probes["final-reopen-equal"] > 0
	return total
}
