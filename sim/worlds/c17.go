package worlds

import (
	"context"
	"encoding/json"
	"fmt"
	"sort"
	"strings"
	"testing"
	"time"

	"github.com/cosi-project/runtime/pkg/controller"
	"github.com/cosi-project/runtime/pkg/controller/runtime/zzverif/simrt"
	"github.com/cosi-project/runtime/pkg/resource"
	"github.com/cosi-project/runtime/pkg/state"
)

// ---------------------------------------------------------------------------
// C17 — output exclusivity and dependency graph for any registration history (DESIGN §7 C17)

// RegStep is one step of a registration history.
type RegStep struct {
	Kind   string      `json:"kind"` // register | update-inputs | start
	Spec   *ProbeSpec  `json:"spec,omitempty"`
	Target string      `json:"target,omitempty"` // update-inputs: controller name
	Inputs []InputSpec `json:"inputs,omitempty"`
}

// C17Case is a C17 run.
type C17Case struct {
	Common
	Steps  []RegStep `json:"steps"`
	Writes []WriteOp `json:"writes"`
}

type c17 struct{}

func init() { register(c17{}) }

func (c17) ID() string { return "C17" }

func (c17) Rule() string {
	return "case = a history of <=10 RegisterController / RegisterQController / UpdateInputs calls with valid, duplicate-name, conflicting-output (exclusive vs exclusive/shared, also within one declaration), duplicate-input and kind-invalid declarations over 3 types x {by kind, 2 ids}, placed before and after the runtime is started, followed by one write per (type,id) + schedule policy; after every step the exported dependency graph is compared with a reference model of accepted declarations, after every write each controller's wake-up count must have grown iff it has a matching input; non-trivial = >=1 accepted and >=1 rejected call and >=1 notification compared; distinct = distinct (history, schedule) hash"
}

func (c17) Components() (real, stub []string) {
	return []string{"pkg/controller/runtime (RegisterController, RegisterQController, Run, event delivery)", "internal/dependency (Database)", "internal/rruntime, internal/qruntime (NewAdapter, UpdateInputs, WatchTrigger)", "pkg/state/impl/inmem"},
		[]string{"Go scheduler choice (simrt)", "OS clock (synctest)", "controller bodies (harness probes)"}
}

func (c17) Decode(b []byte) (Case, error) {
	var c C17Case
	err := json.Unmarshal(b, &c)
	return &c, err
}

func genDecl(r *simrt.RNG, q bool, sloppy bool) ([]InputSpec, []OutputSpec) {
	types := []string{TypeA, TypeB, TypeC}
	var ins []InputSpec
	var outs []OutputSpec
	plainKinds := []string{"weak", "strong", "destroyready"}
	qKinds := []string{"qprimary", "qmapped", "qmappeddr"}
	n := 1 + r.Intn(3)
	if q {
		ins = append(ins, InputSpec{Type: types[r.Intn(3)], Kind: "qprimary"})
		n--
	}
	for i := 0; i < n; i++ {
		in := InputSpec{Type: types[r.Intn(3)], ID: []string{"", "", "r0", "r1"}[r.Intn(4)]}
		kinds := plainKinds
		if q {
			kinds = qKinds[1:]
		}
		in.Kind = kinds[r.Intn(len(kinds))]
		if sloppy && r.Bool(0.25) {
			// a kind of the other flavour
			if q {
				in.Kind = plainKinds[r.Intn(3)]
			} else {
				in.Kind = qKinds[r.Intn(3)]
			}
		}
		ins = append(ins, in)
	}
	if sloppy && r.Bool(0.3) && len(ins) > 0 {
		d := ins[r.Intn(len(ins))] // same namespace/type/id again (possibly with another kind)
		if !q {
			d.Kind = plainKinds[r.Intn(3)]
		}
		ins = append(ins, d)
	}
	no := r.Intn(3)
	for i := 0; i < no; i++ {
		outs = append(outs, OutputSpec{Type: types[r.Intn(3)], Kind: []string{"exclusive", "shared"}[r.Intn(2)]})
	}
	return ins, outs
}

func (c17) Gen(seed uint64, tier string) Case {
	r := simrt.NewRNG(seed)
	c := &C17Case{Common: Common{Prop: "C17", Seed: seed, Tier: tier}}
	n := 3 + r.Intn(8)
	if tier == "thorough" {
		n = 3 + r.Intn(16)
	}
	startAt := r.Intn(n)
	names := 0
	var regNames []string
	var plainNames []string
	for i := 0; i < n; i++ {
		if i == startAt {
			c.Steps = append(c.Steps, RegStep{Kind: "start"})
		}
		if len(plainNames) > 0 && r.Bool(0.25) {
			ins, _ := genDecl(r, false, r.Bool(0.5))
			c.Steps = append(c.Steps, RegStep{Kind: "update-inputs", Target: plainNames[r.Intn(len(plainNames))], Inputs: ins})
			continue
		}
		q := r.Bool(0.4)
		ins, outs := genDecl(r, q, r.Bool(0.5))
		name := fmt.Sprintf("ctrl%d", names)
		if len(regNames) > 0 && r.Bool(0.15) {
			name = regNames[r.Intn(len(regNames))] // duplicate name
		} else {
			names++
		}
		spec := &ProbeSpec{Name: name, Q: q, Inputs: ins, Outputs: outs, RegisterMs: -1}
		if q {
			spec.Concurrency = 1 + r.Intn(2)
		}
		c.Steps = append(c.Steps, RegStep{Kind: "register", Spec: spec})
		regNames = append(regNames, name)
		if !q {
			plainNames = append(plainNames, name)
		}
	}
	uniq := 0
	for _, typ := range []string{TypeA, TypeB, TypeC} {
		for _, id := range []string{"r0", "r1"} {
			uniq++
			c.Writes = append(c.Writes, WriteOp{Kind: "update", Type: typ, ID: id, Val: fmt.Sprintf("w%d", uniq), Mut: "val"})
		}
	}
	c.Policy = genPolicy(r, []string{"rt/", "root"})
	return c
}

func (c17) Shrink(cs Case) []Case {
	c := cs.(*C17Case)
	var out []Case
	for i := range c.Steps {
		n := cloneJSON(c)
		n.Steps = dropAt(n.Steps, i)
		out = append(out, n)
	}
	for i := range c.Writes {
		n := cloneJSON(c)
		n.Writes = dropAt(n.Writes, i)
		out = append(out, n)
	}
	for i, st := range c.Steps {
		if st.Spec != nil {
			for k := range st.Spec.Inputs {
				if len(st.Spec.Inputs) > 1 {
					n := cloneJSON(c)
					n.Steps[i].Spec.Inputs = dropAt(n.Steps[i].Spec.Inputs, k)
					out = append(out, n)
				}
			}
			for k := range st.Spec.Outputs {
				n := cloneJSON(c)
				n.Steps[i].Spec.Outputs = dropAt(n.Steps[i].Spec.Outputs, k)
				out = append(out, n)
			}
		}
		for k := range st.Inputs {
			if len(st.Inputs) > 1 {
				n := cloneJSON(c)
				n.Steps[i].Inputs = dropAt(n.Steps[i].Inputs, k)
				out = append(out, n)
			}
		}
	}
	if c.Policy.Kind != "walk" || c.Policy.SwitchProb != 0.2 || c.Policy.PermuteMaps || c.Policy.StarvePrefix != "" || c.Policy.PreemptProb != 0 {
		n := cloneJSON(c)
		n.Policy = simrt.Policy{Kind: "walk", SwitchProb: 0.2}
		out = append(out, n)
	}
	return out
}

// regModel is the reference model of the dependency database, written from the property statement.
type regModel struct {
	exclusive map[string]string
	shared    map[string]map[string]bool
	inputs    map[string][]InputSpec
	q         map[string]bool
	names     map[string]bool
}

func newRegModel() *regModel {
	return &regModel{exclusive: map[string]string{}, shared: map[string]map[string]bool{}, inputs: map[string][]InputSpec{}, q: map[string]bool{}, names: map[string]bool{}}
}

func validKinds(q bool, ins []InputSpec) string {
	seen := map[string]bool{}
	for _, in := range ins {
		plain := in.Kind == "weak" || in.Kind == "strong" || in.Kind == "destroyready"
		if plain == q {
			return fmt.Sprintf("input kind %s is not valid for this controller flavour", in.Kind)
		}
		k := in.ns() + "/" + in.Type + "/" + in.ID
		if seen[k] {
			return "conflicting inputs for " + k
		}
		seen[k] = true
	}
	return ""
}

// register returns "" if the model accepts the declaration (and applies it), else the reason for rejection.
func (m *regModel) register(spec *ProbeSpec) string {
	if m.names[spec.Name] {
		return "name already registered"
	}
	excl := map[string]bool{}
	shr := map[string]bool{}
	for _, o := range spec.Outputs {
		if _, taken := m.exclusive[o.Type]; taken || excl[o.Type] {
			return "type " + o.Type + " already has an exclusive owner"
		}
		if o.Kind == "exclusive" {
			if len(m.shared[o.Type]) > 0 || shr[o.Type] {
				return "type " + o.Type + " already has shared owners"
			}
			excl[o.Type] = true
		} else {
			if shr[o.Type] {
				return "shared output " + o.Type + " declared twice"
			}
			shr[o.Type] = true
		}
	}
	if why := validKinds(spec.Q, spec.Inputs); why != "" {
		return why
	}
	m.names[spec.Name] = true
	m.q[spec.Name] = spec.Q
	for t := range excl {
		m.exclusive[t] = spec.Name
	}
	for t := range shr {
		if m.shared[t] == nil {
			m.shared[t] = map[string]bool{}
		}
		m.shared[t][spec.Name] = true
	}
	m.inputs[spec.Name] = append([]InputSpec{}, spec.Inputs...)
	return ""
}

func (m *regModel) updateInputs(name string, ins []InputSpec) string {
	if why := validKinds(false, ins); why != "" {
		return why
	}
	m.inputs[name] = append([]InputSpec{}, ins...)
	return ""
}

func (m *regModel) edges() []string {
	var out []string
	for t, n := range m.exclusive {
		out = append(out, fmt.Sprintf("%s output-exclusive %s", n, t))
	}
	for t, ns := range m.shared {
		for n := range ns {
			out = append(out, fmt.Sprintf("%s output-shared %s", n, t))
		}
	}
	for n, ins := range m.inputs {
		for _, in := range ins {
			out = append(out, fmt.Sprintf("%s input-%s %s/%s/%s", n, in.Kind, in.ns(), in.Type, in.ID))
		}
	}
	sort.Strings(out)
	return out
}

func graphEdges(g *controller.DependencyGraph) []string {
	var out []string
	for _, e := range g.Edges {
		switch e.EdgeType {
		case controller.EdgeOutputExclusive:
			out = append(out, fmt.Sprintf("%s output-exclusive %s", e.ControllerName, e.ResourceType))
		case controller.EdgeOutputShared:
			out = append(out, fmt.Sprintf("%s output-shared %s", e.ControllerName, e.ResourceType))
		default:
			kind := map[controller.DependencyEdgeType]string{controller.EdgeInputStrong: "strong", controller.EdgeInputWeak: "weak", controller.EdgeInputDestroyReady: "destroyready",
				controller.EdgeInputQPrimary: "qprimary", controller.EdgeInputQMapped: "qmapped", controller.EdgeInputQMappedDestroyReady: "qmappeddr"}[e.EdgeType]
			out = append(out, fmt.Sprintf("%s input-%s %s/%s/%s", e.ControllerName, kind, e.ResourceNamespace, e.ResourceType, e.ResourceID))
		}
	}
	sort.Strings(out)
	return out
}

// wantsNotify tells whether a controller with these inputs is woken by an ordinary update of (typ,id).
func wantsNotify(ins []InputSpec, typ, id string) bool {
	for _, in := range ins {
		if in.Type != typ || (in.ID != "" && in.ID != id) {
			continue
		}
		if in.Kind == "destroyready" || in.Kind == "qmappeddr" {
			continue // only woken for resources tearing down without finalizers
		}
		return true
	}
	return false
}

func (c17) Run(t *testing.T, cs Case, trace bool) *Outcome {
	c := cs.(*C17Case)
	out := &Outcome{}
	st, panics, berr := simrt.Run(t, simrt.Config{Seed: c.Seed, Policy: c.Policy, Trace: trace}, func(s *simrt.Sim) {
		w, err := NewRuntimeWorld("inmem+tap", HistCfg{}, RuntimeOpts{}, out)
		if err != nil {
			out.HarnessErr = err.Error()
			return
		}
		ctx, cancel := context.WithCancel(context.Background())
		defer cancel()
		// the resources the final writes will touch
		for _, typ := range []string{TypeA, TypeB, TypeC} {
			for _, id := range []string{"r0", "r1"} {
				if err := w.St.Create(ctx, NewRes("ns1", typ, id, "init")); err != nil {
					out.HarnessErr = err.Error()
					return
				}
			}
		}
		// background churn: events keep flowing while controllers are registered and inputs are updated
		s.Spawn("churn", func() {
			for i := 0; i < 8*len(c.Steps); i++ {
				simrt.Sleep(150 * time.Millisecond)
				typ := []string{TypeA, TypeB, TypeC}[i%3]
				id := []string{"r0", "r1"}[(i/3)%2]
				_, _ = w.St.UpdateWithConflicts(ctx, resource.NewMetadata("ns1", typ, id, resource.VersionUndefined), func(r resource.Resource) error {
					SpecOf(r).Val = fmt.Sprintf("churn%d", i)
					return nil
				})
			}
		})
		model := newRegModel()
		probes := map[string]*Probe{}
		started := false
		var notes []string
		settle := func(what string) bool {
			if r := s.Settle(800000); r != simrt.Quiescent {
				out.HarnessErr = fmt.Sprintf("C17 %s did not become quiescent: %v live=%v", what, r, s.Live())
				return false
			}
			if ps := s.Panics(); len(ps) > 0 {
				out.violate("C17/delivery-crash", "panic:"+firstLine(ps[0].Value), "after %s a runtime task panicked (the process would have crashed): task %s: %s\n%s", what, ps[0].Task, ps[0].Value, ps[0].Stack)
				return false
			}
			if started && w.RunReturned {
				out.violate("C17/runtime-stopped", "runtime-stopped", "after %s Runtime.Run returned: %v", what, w.RunErr)
				return false
			}
			return true
		}
		checkGraph := func(what string) bool {
			g, err := w.RT.GetDependencyGraph()
			if err != nil {
				out.violate("C17/graph", "graph-error", "GetDependencyGraph failed after %s: %v", what, err)
				return false
			}
			got, want := graphEdges(g), model.edges()
			if strings.Join(got, "\n") != strings.Join(want, "\n") {
				out.violate("C17/graph", "graph-mismatch:"+strings.SplitN(what, " ", 2)[0], "after %s the exported dependency graph differs from the accepted declarations\n  graph:    %v\n  accepted: %v\nhistory so far:\n  %s", what, got, want, strings.Join(notes, "\n  "))
				return false
			}
			return true
		}
		for i, step := range c.Steps {
			what := fmt.Sprintf("%s step %d", step.Kind, i)
			switch step.Kind {
			case "start":
				w.Start(s, ctx)
				started = true
				notes = append(notes, "start")
			case "register":
				spec := *step.Spec
				p := NewProbe(spec, w, out)
				p.captureRT = true
				var err error
				var panicked any
				func() {
					defer func() { panicked = recover() }()
					err = p.Register()
				}()
				if panicked != nil {
					out.violate("C17/panic", "panic:registration", "registration %d (%s q=%v inputs=%v outputs=%v) panicked: %v\n  %s", i, spec.Name, spec.Q, spec.Inputs, spec.Outputs, panicked, strings.Join(notes, "\n  "))
					return
				}
				why := model.register(&spec)
				notes = append(notes, fmt.Sprintf("register %s q=%v inputs=%v outputs=%v -> impl: %v, model: %q", spec.Name, spec.Q, spec.Inputs, spec.Outputs, err, why))
				if (err == nil) != (why == "") {
					out.violate("C17/acceptance", "acceptance:register", "registration %d is %s by the runtime but %s by the model\n  %s", i, map[bool]string{true: "accepted", false: "rejected (" + fmt.Sprint(err) + ")"}[err == nil], map[bool]string{true: "accepted", false: "rejected (" + why + ")"}[why == ""], strings.Join(notes, "\n  "))
					return
				}
				if err == nil {
					probes[spec.Name] = p
					out.probe("accepted")
				} else {
					out.probe("rejected")
					out.fault("registration:invalid-declaration-rejected")
				}
			case "update-inputs":
				p := probes[step.Target]
				if p == nil || p.rt == nil {
					notes = append(notes, fmt.Sprintf("update-inputs %s skipped (not running)", step.Target))
					continue
				}
				// the controller applies the update itself at its next reconcile, concurrently with event delivery
				p.pendingInputs, p.pendingSet, p.pendingDone = step.Inputs, true, false
				p.rt.QueueReconcile()
				if r := s.RunUntil(800000, func() bool { return p.pendingDone }); r != simrt.CondMet {
					out.HarnessErr = fmt.Sprintf("C17 update-inputs was not applied: %v live=%v", r, s.Live())
					return
				}
				err := p.pendingErr
				why := model.updateInputs(step.Target, step.Inputs)
				notes = append(notes, fmt.Sprintf("update-inputs %s %v -> impl: %v, model: %q", step.Target, step.Inputs, err, why))
				if (err == nil) != (why == "") {
					out.violate("C17/acceptance", "acceptance:update-inputs", "UpdateInputs (step %d) is %v by the runtime but %q by the model\n  %s", i, err, why, strings.Join(notes, "\n  "))
					return
				}
				if err == nil {
					out.probe("accepted")
				} else {
					out.probe("rejected")
					out.fault("registration:invalid-declaration-rejected")
				}
			}
			// let the system run for a virtual second (the background churn keeps events flowing) and compare the graph
			s.RunFor(time.Second, 400000)
			if ps := s.Panics(); len(ps) > 0 {
				out.violate("C17/delivery-crash", "panic:"+firstLine(ps[0].Value), "after %s a runtime task panicked (the process would have crashed): task %s: %s\n%s", what, ps[0].Task, ps[0].Value, ps[0].Stack)
				return
			}
			if !checkGraph(what) {
				return
			}
		}
		if !settle("the registration history") {
			return
		}
		if !started {
			w.Start(s, ctx)
			started = true
			if !settle("start") {
				return
			}
		}
		// notifications reach exactly the controllers with a matching input
		var acks []Ack
		var ev int64
		for _, wop := range c.Writes {
			before := map[string]int{}
			for n, p := range probes {
				before[n] = p.Reconciles + p.MapCalls
			}
			wr := &writer{st: w.Core, acks: &acks, ev: &ev, out: out}
			s.Spawn("writer-"+wop.Val, func() { wr.do(ctx, wop) })
			what := fmt.Sprintf("write to %s/%s", wop.Type, wop.ID)
			if !settle(what) {
				return
			}
			for _, n := range sortedKeys(probes) {
				p := probes[n]
				grew := p.Reconciles+p.MapCalls > before[n]
				want := wantsNotify(model.inputs[n], wop.Type, wop.ID)
				if grew != want {
					out.violate("C17/notification", "notification-mismatch", "%s: controller %s (accepted inputs %v) was %s, expected %s\n  %s", what, n, model.inputs[n], map[bool]string{true: "woken", false: "not woken"}[grew], map[bool]string{true: "woken", false: "not woken"}[want], strings.Join(notes, "\n  "))
					return
				}
				out.probe("notification-compared")
			}
		}
		out.Nontrivial = out.Probes["accepted"] > 0 && out.Probes["rejected"] > 0 && out.Probes["notification-compared"] > 0
		if trace {
			out.Trace = s.Trace()
			out.Notes = notes
		}
		cancel()
		s.Settle(500000)
	})
	out.finish(st, panics, berr, true)
	return out
}

var _ = resource.VersionUndefined
var _ = state.IsNotFoundError
