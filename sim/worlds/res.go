package worlds

import (
	"encoding/json"
	"sort"
	"strings"

	"github.com/cosi-project/runtime/pkg/resource"
	"github.com/cosi-project/runtime/pkg/resource/meta/spec"
	"github.com/cosi-project/runtime/pkg/resource/protobuf"
	"github.com/cosi-project/runtime/pkg/resource/typed"
)

// Spec is the spec of every simulated resource: a unique value plus a token list.
type Spec struct {
	Val    string   `json:"val"`
	Tokens []string `json:"tokens,omitempty"`
}

// DeepCopy implements typed.DeepCopyable.
func (s Spec) DeepCopy() Spec {
	return Spec{Val: s.Val, Tokens: append([]string(nil), s.Tokens...)}
}

// MarshalProto implements protobuf.ProtoMarshaler (opaque bytes on the wire).
func (s Spec) MarshalProto() ([]byte, error) { return json.Marshal(s) }

// UnmarshalProto implements protobuf.ProtoUnmarshaler.
func (s *Spec) UnmarshalProto(b []byte) error {
	if len(b) == 0 {
		// an empty proto message is the zero spec (what a tombstone becomes on the wire)
		*s = Spec{}
		return nil
	}
	return json.Unmarshal(b, s)
}

// Resource types of the simulated universe.
const (
	TypeA = resource.Type("As.sim.cosi.dev")
	TypeB = resource.Type("Bs.sim.cosi.dev")
	TypeC = resource.Type("Cs.sim.cosi.dev")
)

// AExt, BExt, CExt are the typed extensions.
type (
	AExt struct{}
	BExt struct{}
	CExt struct{}
)

// ResourceDefinition implements typed.Extension.
func (AExt) ResourceDefinition() spec.ResourceDefinitionSpec {
	return spec.ResourceDefinitionSpec{Type: TypeA, DefaultNamespace: "ns1"}
}

// ResourceDefinition implements typed.Extension.
func (BExt) ResourceDefinition() spec.ResourceDefinitionSpec {
	return spec.ResourceDefinitionSpec{Type: TypeB, DefaultNamespace: "ns1"}
}

// ResourceDefinition implements typed.Extension.
func (CExt) ResourceDefinition() spec.ResourceDefinitionSpec {
	return spec.ResourceDefinitionSpec{Type: TypeC, DefaultNamespace: "ns1"}
}

// A, B, C are the resource kinds.
type (
	A = typed.Resource[Spec, AExt]
	B = typed.Resource[Spec, BExt]
	C = typed.Resource[Spec, CExt]
)

func init() {
	must(protobuf.RegisterResource(TypeA, &A{}))
	must(protobuf.RegisterResource(TypeB, &B{}))
	must(protobuf.RegisterResource(TypeC, &C{}))
}

func must(err error) {
	if err != nil {
		panic(err)
	}
}

// NewRes builds a resource of the given type.
func NewRes(ns resource.Namespace, typ resource.Type, id resource.ID, val string) resource.Resource {
	md := resource.NewMetadata(ns, typ, id, resource.VersionUndefined)
	switch typ {
	case TypeA:
		return typed.NewResource[Spec, AExt](md, Spec{Val: val})
	case TypeB:
		return typed.NewResource[Spec, BExt](md, Spec{Val: val})
	case TypeC:
		return typed.NewResource[Spec, CExt](md, Spec{Val: val})
	}
	panic("unknown type " + typ)
}

// SpecOf returns the spec of a simulated resource (also through protobuf wrappers).
func SpecOf(r resource.Resource) *Spec {
	if resource.IsTombstone(r) {
		return &Spec{Val: "<tombstone>"}
	}
	switch s := r.Spec().(type) {
	case *Spec:
		return s
	case Spec:
		return &s
	}
	if pr, ok := r.(*protobuf.Resource); ok {
		// skip-unmarshal wrapper: decode the wire bytes of the spec
		if m, err := pr.Marshal(); err == nil {
			var s Spec
			if b := m.GetSpec().GetProtoSpec(); len(b) == 0 || json.Unmarshal(b, &s) == nil {
				return &s
			}
		}
	}
	// anything else: try the proto bytes
	if pm, ok := r.Spec().(interface{ MarshalProto() ([]byte, error) }); ok {
		b, err := pm.MarshalProto()
		if err == nil {
			var s Spec
			if json.Unmarshal(b, &s) == nil {
				return &s
			}
		}
	}
	return &Spec{Val: "<?>"}
}

// Snap is the observable content of a resource, in comparable form.
type Snap struct {
	NS, Type, ID string
	Version      string
	Owner        string
	Phase        string
	Fins         string
	FinsRaw      string // finalizers in stored order
	Labels       string
	Annots       string
	Val          string
	Tokens       string
	Created      int64
	Updated      int64
}

// SnapOf captures a resource.
func SnapOf(r resource.Resource) Snap {
	md := r.Metadata()
	sp := SpecOf(r)
	fins := append([]string(nil), *md.Finalizers()...)
	sort.Strings(fins)
	return Snap{
		NS: md.Namespace(), Type: md.Type(), ID: md.ID(),
		Version: md.Version().String(), Owner: md.Owner(), Phase: md.Phase().String(),
		Fins:    strings.Join(fins, ","),
		FinsRaw: strings.Join([]string(*md.Finalizers()), ","),
		Labels:  kvString(md.Labels().Raw()),
		Annots:  kvString(md.Annotations().Raw()),
		Val:     sp.Val,
		Tokens:  strings.Join(sp.Tokens, ","),
		Created: md.Created().UnixNano(), Updated: md.Updated().UnixNano(),
	}
}

func kvString(m map[string]string) string {
	keys := make([]string, 0, len(m))
	for k := range m {
		keys = append(keys, k)
	}
	sort.Strings(keys)
	var sb strings.Builder
	for _, k := range keys {
		sb.WriteString(k + "=" + m[k] + ";")
	}
	return sb.String()
}
