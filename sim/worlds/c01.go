package worlds

import (
	"context"
	"encoding/json"
	"fmt"
	"sort"
	"strconv"
	"strings"
	"testing"
	"time"

	"github.com/anishathalye/porcupine"

	"github.com/cosi-project/runtime/pkg/controller/runtime/zzverif/simrt"
	"github.com/cosi-project/runtime/pkg/resource"
	"github.com/cosi-project/runtime/pkg/resource/kvutils"
	"github.com/cosi-project/runtime/pkg/state"
)

// ---------------------------------------------------------------------------
// C01 — linearizability of CRUD on every CoreState (DESIGN §7 C01)

// CrudOp is one client operation.
type CrudOp struct {
	Kind    string `json:"kind"` // create | update | destroy | get | list
	NS      string `json:"ns"`
	Type    string `json:"type"`
	ID      string `json:"id,omitempty"`
	Owner   string `json:"owner,omitempty"`
	Phase   string `json:"phase,omitempty"` // update: "" (default) | any | running | tearingDown
	Ver     int    `json:"ver,omitempty"`   // update without a held copy: fabricated version
	Mut     string `json:"mut,omitempty"`   // update: val | teardown | running | fin+X | fin-X | label:k=v
	Val     string `json:"val,omitempty"`
	SleepMs int    `json:"sleep_ms,omitempty"`
	Fresh   bool   `json:"fresh,omitempty"` // update: Get a fresh copy first (separate recorded op)
}

// C01Case is a C01 run.
type C01Case struct {
	Common
	Variant string `json:"variant"`
	// Remote: the clients reach the store through the gRPC client adapter, the simulated transport and the server
	// (concurrent handlers over one state)
	Remote bool `json:"remote,omitempty"`
	// StoreFaults: 1-based indices of backing-store writes that are rejected (variants with a backing store): the
	// failed call must leave the state untouched
	StoreFaults []int      `json:"store_faults,omitempty"`
	Hist        HistCfg    `json:"hist"`
	Clients     [][]CrudOp `json:"clients"`
}

type c01 struct{}

func init() { register(c01{}) }

func (c01) ID() string { return "C01" }

func (c01) Rule() string {
	return "case = store variant + 2-4 client op lists (create/update/destroy/get/list over <=3 ids, 2 types, <=2 namespaces, owners {'',A,B}, stale or fresh versions, phase expectations, finalizer/label/phase mutations) + schedule policy, all from the run seed; non-trivial = >=2 clients actually interleaved (>=1 context switch between two clients inside the history) and >=1 successful write; distinct = distinct scheduler trace hash"
}

func (c01) Components() (real, stub []string) {
	return []string{"pkg/state (CoreState, errors, options)", "pkg/state/impl/inmem", "pkg/state/impl/namespaced", "pkg/resource"},
		[]string{"Go scheduler choice (simrt)", "OS clock (synctest)"}
}

func (c01) Decode(b []byte) (Case, error) {
	var c C01Case
	err := json.Unmarshal(b, &c)
	return &c, err
}

var owners = []string{"", "A", "B"}

func genCrudOps(r *simrt.RNG, nss []string, client, n int, uniq *int) []CrudOp {
	ops := make([]CrudOp, 0, n)
	for i := 0; i < n; i++ {
		op := CrudOp{
			NS:   nss[r.Intn(len(nss))],
			Type: []string{TypeA, TypeB}[r.Pick([]int{4, 1})],
			ID:   "r" + strconv.Itoa(r.Pick([]int{5, 3, 1})),
		}
		*uniq++
		op.Val = fmt.Sprintf("c%d#%d", client, *uniq)
		switch r.Pick([]int{3, 6, 2, 3, 1}) {
		case 0:
			op.Kind = "create"
			op.Owner = owners[r.Pick([]int{3, 2, 1})]
			op.Fresh = r.Bool(0.3) // create from a held object (obtained earlier: carries a version, phase, finalizers, labels)
		case 1:
			op.Kind = "update"
			op.Owner = owners[r.Pick([]int{3, 2, 1})]
			op.Phase = []string{"", "any", "running", "tearingDown"}[r.Pick([]int{4, 3, 1, 1})]
			op.Ver = 1 + r.Intn(3)
			op.Fresh = r.Bool(0.5)
			switch r.Pick([]int{5, 2, 1, 3, 2, 1}) {
			case 0:
				op.Mut = "val"
			case 1:
				op.Mut = "teardown"
			case 2:
				op.Mut = "running"
			case 3:
				op.Mut = "fin+" + []string{"f1", "f2"}[r.Intn(2)]
			case 4:
				op.Mut = "fin-" + []string{"f1", "f2"}[r.Intn(2)]
			case 5:
				op.Mut = "label:k=" + strconv.Itoa(r.Intn(3))
			}
		case 2:
			op.Kind = "destroy"
			op.Owner = owners[r.Pick([]int{3, 2, 1})]
		case 3:
			op.Kind = "get"
		case 4:
			op.Kind = "list"
			op.ID = ""
		}
		if r.Bool(0.2) {
			op.SleepMs = 1 + r.Intn(2000)
		}
		ops = append(ops, op)
	}
	return ops
}

func (c01) Gen(seed uint64, tier string) Case {
	r := simrt.NewRNG(seed)
	c := &C01Case{Common: Common{Prop: "C01", Seed: seed, Tier: tier}}
	c.Variant = storeVariants[r.Intn(len(storeVariants))]
	nss := variantNamespaces(c.Variant)
	c.Remote = remoteAvailable && r.Bool(0.2)
	if strings.Contains(c.Variant, "+tap") && r.Bool(0.3) {
		for i := 0; i < 1+r.Intn(3); i++ {
			c.StoreFaults = append(c.StoreFaults, 1+r.Intn(10))
		}
	}
	nclients := 2 + r.Intn(3)
	maxOps := 6
	if tier == "thorough" {
		maxOps = 9
		nclients = 2 + r.Intn(4)
	}
	uniq := 0
	var prefixes []string
	for i := 0; i < nclients; i++ {
		c.Clients = append(c.Clients, genCrudOps(r, nss, i, 2+r.Intn(maxOps), &uniq))
		prefixes = append(prefixes, fmt.Sprintf("client%d", i))
	}
	c.Policy = genPolicy(r, prefixes)
	return c
}

func (c01) Shrink(cs Case) []Case {
	c := cs.(*C01Case)
	var out []Case
	// drop a whole client
	if len(c.Clients) > 1 {
		for i := range c.Clients {
			n := cloneJSON(c)
			n.Clients = dropAt(n.Clients, i)
			out = append(out, n)
		}
	}
	// drop one op
	for i := range c.Clients {
		for j := range c.Clients[i] {
			n := cloneJSON(c)
			n.Clients[i] = dropAt(n.Clients[i], j)
			out = append(out, n)
		}
	}
	// simplify
	for i := range c.Clients {
		for j, op := range c.Clients[i] {
			if op.SleepMs != 0 {
				n := cloneJSON(c)
				n.Clients[i][j].SleepMs = 0
				out = append(out, n)
			}
		}
	}
	if c.Remote {
		n := cloneJSON(c)
		n.Remote = false
		out = append(out, n)
	}
	for i := range c.StoreFaults {
		n := cloneJSON(c)
		n.StoreFaults = dropAt(n.StoreFaults, i)
		out = append(out, n)
	}
	if c.Variant != "inmem" {
		n := cloneJSON(c)
		n.Variant = "inmem"
		ok := true
		for _, cl := range n.Clients {
			for _, op := range cl {
				if op.NS != "ns1" {
					ok = false
				}
			}
		}
		if ok {
			out = append(out, n)
		}
	}
	if c.Policy.Kind != "walk" || c.Policy.SwitchProb != 0.2 || c.Policy.PermuteMaps || c.Policy.StarvePrefix != "" || c.Policy.PreemptProb != 0 {
		n := cloneJSON(c)
		n.Policy = simrt.Policy{Kind: "walk", SwitchProb: 0.2}
		out = append(out, n)
	}
	return out
}

// ---- recorded history

type crudIn struct {
	Op      CrudOp
	Part    string // partition key ns/type
	BaseVer string // update: version of the object passed in
	New     Snap   // update/create: content passed in
}

type crudOut struct {
	Err   ErrClass
	Snap  Snap   // get: result; create/update: object after write-back
	List  string // list: rendered result
	Found bool
}

type crudRec struct {
	Client    int
	In        crudIn
	Out       crudOut
	Call, Ret int64
}

func idIndex(id string) int {
	n, _ := strconv.Atoi(strings.TrimPrefix(id, "r"))
	return n
}

type modelEntry struct {
	Exists  bool
	Ver     uint64
	Owner   string
	Phase   string
	Fins    string
	Labels  string
	Val     string
	Created int64
	Updated int64
}

type modelState [3]modelEntry

func verNum(s string) uint64 {
	if s == "undefined" {
		return 0
	}
	n, _ := strconv.ParseUint(s, 10, 64)
	return n
}

func entrySnap(e modelEntry) string {
	return fmt.Sprintf("v%d owner=%q phase=%s fins=[%s] labels=[%s] val=%s created=%d updated=%d", e.Ver, e.Owner, e.Phase, e.Fins, e.Labels, e.Val, e.Created, e.Updated)
}

func snapEntry(s Snap) modelEntry {
	return modelEntry{Exists: true, Ver: verNum(s.Version), Owner: s.Owner, Phase: s.Phase, Fins: s.Fins, Labels: s.Labels, Val: s.Val, Created: s.Created, Updated: s.Updated}
}

// crudModel is the sequential specification of one (namespace,type) partition, written from the
// property statement.
var crudModel = makeCrudModel(modelState{})

func makeCrudModel(init modelState) porcupine.Model {
	return porcupine.Model{
		Init: func() interface{} { return init },
		Step: func(st, in, out interface{}) (bool, interface{}) {
			s := st.(modelState)
			i := in.(crudIn)
			o := out.(crudOut)
			switch i.Op.Kind {
			case "get":
				e := s[idIndex(i.Op.ID)]
				if !e.Exists {
					return o.Err.NotFound, s
				}
				if o.Err != (ErrClass{}) {
					return false, s
				}
				return snapEntry(o.Snap) == e, s
			case "list":
				if o.Err != (ErrClass{}) {
					return false, s
				}
				var parts []string
				for k, e := range s {
					if e.Exists {
						parts = append(parts, fmt.Sprintf("r%d:%s", k, entrySnap(e)))
					}
				}
				return strings.Join(parts, "|") == o.List, s
			case "create":
				if o.Err.Injected {
					return true, s // rejected by the backing store: no effect (later reads check that)
				}
				k := idIndex(i.Op.ID)
				e := s[k]
				if e.Exists {
					// must fail as a (plain) conflict
					return o.Err.Conflict && !o.Err.NotFound, s
				}
				if o.Err != (ErrClass{}) {
					return false, s
				}
				// version 1 under the requested owner, content as passed
				n := snapEntry(i.New)
				n.Ver = 1
				n.Owner = i.Op.Owner
				got := snapEntry(o.Snap)
				n.Created, n.Updated = got.Created, got.Updated
				if got != n {
					return false, s
				}
				s[k] = n
				return true, s
			case "update":
				if o.Err.Injected {
					return true, s
				}
				k := idIndex(i.Op.ID)
				e := s[k]
				exists := e.Exists
				ownerOK := exists && e.Owner == i.Op.Owner
				verOK := exists && e.Ver == verNum(i.BaseVer)
				phaseOK := exists
				switch i.Op.Phase {
				case "", "running":
					phaseOK = exists && e.Phase == "running"
				case "tearingDown":
					phaseOK = exists && e.Phase == "tearingDown"
				}
				if exists && ownerOK && verOK && phaseOK {
					if o.Err != (ErrClass{}) {
						return false, s
					}
					n := snapEntry(i.New)
					n.Ver = e.Ver + 1
					n.Created = e.Created
					got := snapEntry(o.Snap)
					n.Updated = got.Updated
					if got.Created == 0 {
						got.Created = n.Created // not observed by this call (remote leg)
					}
					if got != n {
						return false, s
					}
					s[k] = n
					return true, s
				}
				// must fail, with a class naming one of the failed conditions
				switch {
				case o.Err == (ErrClass{}):
					return false, s
				case o.Err.NotFound:
					return !exists, s
				case o.Err.Owner:
					return exists && !ownerOK, s
				case o.Err.Phase:
					return exists && !phaseOK, s
				case o.Err.Conflict:
					return exists && !verOK, s
				}
				return false, s
			case "destroy":
				if o.Err.Injected {
					return true, s
				}
				k := idIndex(i.Op.ID)
				e := s[k]
				exists := e.Exists
				ownerOK := exists && e.Owner == i.Op.Owner
				finsOK := exists && e.Fins == ""
				if exists && ownerOK && finsOK {
					if o.Err != (ErrClass{}) {
						return false, s
					}
					s[k] = modelEntry{}
					return true, s
				}
				switch {
				case o.Err == (ErrClass{}):
					return false, s
				case o.Err.NotFound:
					return !exists, s
				case o.Err.Owner:
					return exists && !ownerOK, s
				case o.Err.Phase:
					return false, s
				case o.Err.Conflict:
					return exists && !finsOK, s
				}
				return false, s
			}
			return false, s
		},
		DescribeOperation: func(in, out interface{}) string {
			i := in.(crudIn)
			o := out.(crudOut)
			return fmt.Sprintf("%s %s/%s owner=%q phase=%q base=%s mut=%s -> %s %s", i.Op.Kind, i.Part, i.Op.ID, i.Op.Owner, i.Op.Phase, i.BaseVer, i.Op.Mut, o.Err, entrySnap(snapEntry(o.Snap)))
		},
	}
}

func applyMut(r resource.Resource, op CrudOp) {
	SpecOf(r).Val = op.Val
	switch {
	case op.Mut == "teardown":
		r.Metadata().SetPhase(resource.PhaseTearingDown)
	case op.Mut == "running":
		r.Metadata().SetPhase(resource.PhaseRunning)
	case strings.HasPrefix(op.Mut, "fin+"):
		r.Metadata().Finalizers().Add(op.Mut[4:])
	case strings.HasPrefix(op.Mut, "fin-"):
		r.Metadata().Finalizers().Remove(op.Mut[4:])
	case strings.HasPrefix(op.Mut, "label:"):
		kv := strings.SplitN(op.Mut[6:], "=", 2)
		r.Metadata().Labels().Set(kv[0], kv[1])
	case strings.HasPrefix(op.Mut, "labeldo:"):
		// the batch API: several label edits on a temporary copy-on-write view
		kv := strings.SplitN(op.Mut[8:], "=", 2)
		r.Metadata().Labels().Do(func(tmp kvutils.TempKV) {
			if _, ok := tmp.Get("never"); ok {
				tmp.Delete("never")
			}
			tmp.Set(kv[0], kv[1])
		})
	case strings.HasPrefix(op.Mut, "unlabel:"):
		r.Metadata().Labels().Delete(op.Mut[8:])
	}
}

func updateOpts(op CrudOp) []state.UpdateOption {
	o := []state.UpdateOption{state.WithUpdateOwner(op.Owner)}
	switch op.Phase {
	case "any":
		o = append(o, state.WithExpectedPhaseAny())
	case "running":
		o = append(o, state.WithExpectedPhase(resource.PhaseRunning))
	case "tearingDown":
		o = append(o, state.WithExpectedPhase(resource.PhaseTearingDown))
	}
	return o
}

func renderList(l resource.List) string {
	var parts []string
	for _, r := range l.Items {
		parts = append(parts, fmt.Sprintf("%s:%s", r.Metadata().ID(), entrySnap(snapEntry(SnapOf(r)))))
	}
	return strings.Join(parts, "|")
}

// crudClient executes ops against st, recording the history.
type crudClient struct {
	id   int
	st   state.CoreState
	held map[string]resource.Resource
	recs *[]crudRec
	ev   *int64
	out  *Outcome
	// remote: the gRPC client writes back version, owner and update time only - the creation time of the caller's object
	// says nothing about the store (reads do)
	remote bool
}

func (cl *crudClient) record(in crudIn, call int64, o crudOut) {
	*cl.ev++
	*cl.recs = append(*cl.recs, crudRec{Client: cl.id, In: in, Out: o, Call: call, Ret: *cl.ev})
}

func (cl *crudClient) classify(err error, op CrudOp) ErrClass {
	if err != nil && strings.Contains(err.Error(), errStoreFault.Error()) {
		return ErrClass{Injected: true}
	}
	c, problem := classify(err, op.NS, op.Type)
	if problem != "" {
		sig := "error-predicates"
		if strings.Contains(problem, "panicked") {
			sig = "error-predicate-panic:" + fmt.Sprintf("%T", err)
		}
		cl.out.violate("C01/error-totality", sig, "%s (after %s %s/%s/%s)", problem, op.Kind, op.NS, op.Type, op.ID)
	}
	if c.Other != "" {
		cl.out.violate("C01/error-totality", "unclassifiable", "error of %s is not classifiable: %v", op.Kind, err)
	}
	return c
}

func (cl *crudClient) do(ctx context.Context, op CrudOp) {
	key := op.NS + "/" + op.Type + "/" + op.ID
	part := op.NS + "/" + op.Type
	if op.SleepMs > 0 {
		simrt.Sleep(time.Duration(op.SleepMs) * time.Millisecond)
	}
	simrt.Yield("client.op")
	switch op.Kind {
	case "get":
		cl.get(ctx, op, key, part)
	case "list":
		*cl.ev++
		call := *cl.ev
		l, err := cl.st.List(ctx, resource.NewMetadata(op.NS, op.Type, "", resource.VersionUndefined))
		o := crudOut{Err: cl.classify(err, op)}
		if err == nil {
			o.List = renderList(l)
		}
		cl.record(crudIn{Op: op, Part: part}, call, o)
	case "create":
		r := NewRes(op.NS, op.Type, op.ID, op.Val)
		// (not through the remote leg, where the creation time is not written back into the caller's object, and only if
		// the held object's owner does not contradict the requested one: Metadata.SetOwner refuses to change an owner)
		if h := cl.held[key]; op.Fresh && !cl.remote && h != nil && !resource.IsTombstone(h) && (h.Metadata().Owner() == "" || h.Metadata().Owner() == op.Owner) {
			r = h.DeepCopy()
			SpecOf(r).Val = op.Val
			cl.out.probe("create-from-held")
		}
		in := crudIn{Op: op, Part: part, New: SnapOf(r)}
		*cl.ev++
		call := *cl.ev
		err := cl.st.Create(ctx, r, state.WithCreateOwner(op.Owner))
		o := crudOut{Err: cl.classify(err, op)}
		if err == nil {
			o.Snap = SnapOf(r)
			cl.held[key] = r
			cl.out.probe("write-ok")
		}
		cl.record(in, call, o)
	case "update":
		if op.Fresh {
			g := op
			g.Kind = "get"
			cl.get(ctx, g, key, part)
			simrt.Yield("client.between-get-update")
		}
		var r resource.Resource
		if h := cl.held[key]; h != nil {
			r = h.DeepCopy()
		} else {
			r = NewRes(op.NS, op.Type, op.ID, op.Val)
			v, _ := resource.ParseVersion(strconv.Itoa(op.Ver))
			r.Metadata().SetVersion(v)
			_ = r.Metadata().SetOwner(op.Owner)
		}
		applyMut(r, op)
		in := crudIn{Op: op, Part: part, BaseVer: r.Metadata().Version().String(), New: SnapOf(r)}
		*cl.ev++
		call := *cl.ev
		err := cl.st.Update(ctx, r, updateOpts(op)...)
		o := crudOut{Err: cl.classify(err, op)}
		if err == nil {
			o.Snap = SnapOf(r)
			if cl.remote {
				o.Snap.Created = 0
			}
			cl.held[key] = r
			cl.out.probe("write-ok")
		} else if o.Err.Conflict && !o.Err.Owner && !o.Err.Phase {
			cl.out.probe("version-conflict")
		}
		cl.record(in, call, o)
	case "destroy":
		*cl.ev++
		call := *cl.ev
		err := cl.st.Destroy(ctx, resource.NewMetadata(op.NS, op.Type, op.ID, resource.VersionUndefined), state.WithDestroyOwner(op.Owner))
		o := crudOut{Err: cl.classify(err, op)}
		if err == nil {
			cl.out.probe("write-ok")
			cl.out.probe("destroy-ok")
		}
		cl.record(crudIn{Op: op, Part: part}, call, o)
	}
}

func (cl *crudClient) get(ctx context.Context, op CrudOp, key, part string) {
	*cl.ev++
	call := *cl.ev
	r, err := cl.st.Get(ctx, resource.NewMetadata(op.NS, op.Type, op.ID, resource.VersionUndefined))
	o := crudOut{Err: cl.classify(err, op)}
	if err == nil {
		o.Snap = SnapOf(r)
		o.Found = true
		cl.held[key] = r
	}
	cl.record(crudIn{Op: op, Part: part}, call, o)
}

// checkLinearizable partitions the history and checks each partition with porcupine.
func checkLinearizable(recs []crudRec, out *Outcome, oracle string, inits map[string]modelState) {
	parts := map[string][]porcupine.Operation{}
	for _, r := range recs {
		parts[r.In.Part] = append(parts[r.In.Part], porcupine.Operation{ClientId: r.Client, Input: r.In, Call: r.Call, Output: r.Out, Return: r.Ret})
	}
	keys := sortedKeys(parts)
	for _, k := range keys {
		ops := parts[k]
		res, info := porcupine.CheckOperationsVerbose(makeCrudModel(inits[k]), ops, 20*time.Second)
		switch res {
		case porcupine.Illegal:
			var lines []string
			sort.Slice(ops, func(i, j int) bool { return ops[i].Call < ops[j].Call })
			for _, op := range ops {
				lines = append(lines, fmt.Sprintf("  client%d [%d,%d] %s", op.ClientId, op.Call, op.Return, crudModel.DescribeOperation(op.Input, op.Output)))
			}
			_ = info
			out.violate(oracle, "non-linearizable", "history of partition %s is not linearizable w.r.t. the sequential store spec:\n%s", k, strings.Join(lines, "\n"))
			return
		case porcupine.Unknown:
			out.Inconclusive++
		}
	}
}

func (c01) Run(t *testing.T, cs Case, trace bool) *Outcome {
	c := cs.(*C01Case)
	out := &Outcome{}
	var recs []crudRec
	var ev int64
	st, panics, berr := simrt.Run(t, simrt.Config{Seed: c.Seed, Policy: c.Policy, Trace: trace}, func(s *simrt.Sim) {
		w := NewStoreWorld(c.Variant, c.Hist)
		ctx, cancel := context.WithCancel(context.Background())
		defer cancel()
		nwrites := 0
		if len(c.StoreFaults) > 0 {
			w.failWrite = func(kind, typ, id string) error {
				nwrites++
				for _, f := range c.StoreFaults {
					if f == nwrites {
						out.fault("backing-store-write-rejected:" + kind)
						return errStoreFault
					}
				}
				return nil
			}
		}
		var core state.CoreState = w.Core
		var tr *simTransport
		if c.Remote {
			core, tr = remoteCore(w.Core, nil, out)
		}
		for i, ops := range c.Clients {
			cl := &crudClient{id: i, remote: c.Remote, st: core, held: map[string]resource.Resource{}, recs: &recs, ev: &ev, out: out}
			s.Spawn(fmt.Sprintf("client%d", i), func() {
				for _, op := range ops {
					cl.do(ctx, op)
				}
			})
		}
		if r := s.Settle(200000); r != simrt.Quiescent {
			out.HarnessErr = fmt.Sprintf("C01 run did not become quiescent: %v live=%v", r, s.Live())
			return
		}
		tr.checkServerAlive("C01", out)
		if n := s.LiveCount(); n != 0 {
			out.violate("C01/termination", "blocked-call", "CRUD calls still blocked at quiescence: %v", s.Live())
		}
		if trace {
			out.Trace = s.Trace()
		}
	})
	out.finish(st, panics, berr, false)
	if len(panics) > 0 {
		out.violate("C01/panic", "panic:"+firstLine(panics[0].Value), "task %s panicked: %s\n%s", panics[0].Task, panics[0].Value, panics[0].Stack)
	}
	if out.HarnessErr != "" {
		return out
	}
	if out.Viol == nil {
		inits := map[string]modelState{}
		if strings.Contains(c.Variant, "+preload") {
			var ms modelState
			for _, r := range preloaded() {
				ms[idIndex(r.Metadata().ID())] = snapEntry(SnapOf(r))
			}
			inits["ns1/"+TypeA] = ms
		}
		checkLinearizable(recs, out, "C01/linearizability", inits)
	}
	// non-trivial: overlapping operations of different clients and a successful write
	overlap := false
	for i := range recs {
		for j := range recs {
			if recs[i].Client != recs[j].Client && recs[i].Call < recs[j].Ret && recs[j].Call < recs[i].Ret && recs[i].In.Part == recs[j].In.Part {
				overlap = true
			}
		}
	}
	if overlap {
		out.probe("overlapping-ops")
	}
	out.Nontrivial = overlap && out.Probes["write-ok"] > 0
	if trace {
		for _, r := range recs {
			out.Notes = append(out.Notes, fmt.Sprintf("client%d [%d,%d] %s", r.Client, r.Call, r.Ret, crudModel.DescribeOperation(r.In, r.Out)))
		}
	}
	return out
}

func firstLine(s string) string {
	if i := strings.IndexByte(s, '\n'); i >= 0 {
		return s[:i]
	}
	return s
}
