package worlds

import (
	"encoding/json"
	"fmt"
	"hash/fnv"
	"os"
	"path/filepath"
	"runtime"
	"strconv"
	"strings"
	"sync/atomic"
	"testing"
	"time"

	"github.com/cosi-project/runtime/pkg/controller/runtime/zzverif/simrt"
)

// TestMain warms up every one-time initialisation path (sync.Once values, registries, lazily built tables) before
// any recorded run, so that the first run of a process behaves exactly like every later one - otherwise a case found
// late in a worker would not replay as the first case of a fresh process.
func TestMain(m *testing.M) {
	warmup()
	go watchdog()
	os.Exit(m.Run())
}

// runStarted is the wall-clock start (unix nanos) of the run in progress, 0 when idle.
var runStarted atomic.Int64

// watchdog (a real goroutine outside every bubble) ends the process when a single simulated run makes no progress
// for five wall-clock minutes - a task blocked on a real lock that the scheduler cannot see - and prints the stacks.
// The orchestrator reports that as a harness error (exit 2), never as a violation.
func watchdog() {
	limit := time.Duration(envInt("VERIF_RUN_WALL_S", 300)) * time.Second
	for {
		time.Sleep(2 * time.Second)
		st := runStarted.Load()
		if st != 0 && time.Since(time.Unix(0, st)) > limit {
			buf := make([]byte, 1<<20)
			n := runtime.Stack(buf, true)
			fmt.Fprintf(os.Stderr, "HARNESS-WATCHDOG: a simulated run exceeded %v of wall-clock time; goroutines:\n%s\n", limit, buf[:n])
			os.Exit(3)
		}
	}
}

func timedRun(t *testing.T, p Property, c Case, trace bool) *Outcome {
	runStarted.Store(time.Now().UnixNano())
	defer runStarted.Store(0)
	return p.Run(t, c, trace)
}

func warmup() {
	// nothing may run outside a bubble here: goroutines started outside would outlive into the first simulation.
	// One-time initialisation is absorbed by warmupProp (simulated warm-up cases) in every entry point.
}

func warmupProp(t *testing.T, p Property) {
	for i := uint64(0); i < 3; i++ {
		p.Run(t, p.Gen(simrt.Mix(0xabcdef, i), "quick"), false)
	}
}

func envInt(name string, def int64) int64 {
	if v := os.Getenv(name); v != "" {
		n, err := strconv.ParseInt(v, 10, 64)
		if err == nil {
			return n
		}
	}
	return def
}

func propHash(id string) uint64 {
	h := fnv.New64a()
	h.Write([]byte(id))
	return h.Sum64()
}

// Summary is what one worker reports.
type Summary struct {
	Prop          string            `json:"prop"`
	Shard         int               `json:"shard"`
	Runs          int               `json:"runs"`
	Nontrivial    int               `json:"nontrivial"`
	Hashes        []uint64          `json:"hashes"` // distinct trace hashes of non-trivial runs (capped)
	HashesCapped  bool              `json:"hashes_capped"`
	Steps         int64             `json:"steps"`
	Switches      int64             `json:"switches"`
	SimSeconds    float64           `json:"sim_seconds"`
	Quiescences   int               `json:"quiescences"`
	Probes        map[string]int    `json:"probes"`
	Faults        map[string]int    `json:"faults"`
	SwitchPairs   map[string]bool   `json:"switch_pairs"`
	Inconclusive  int               `json:"inconclusive"`
	Adoptions     int               `json:"adoptions"`
	Violations    []ViolationRec    `json:"violations"`
	HarnessErrors []string          `json:"harness_errors"`
	Samples       []json.RawMessage `json:"samples"`
	WallS         float64           `json:"wall_s"`
	MutexBlocks   int64             `json:"mutex_blocks"`
	SelectMulti   int64             `json:"select_blocks"`
	Tasks         int               `json:"tasks"`
	Rule          string            `json:"rule"`
	Real          []string          `json:"real"`
	Stub          []string          `json:"stub"`
}

// ViolationRec is one violation found by a worker.
type ViolationRec struct {
	Seed      uint64 `json:"seed"`
	Oracle    string `json:"oracle"`
	Signature string `json:"signature"`
	Msg       string `json:"msg"`
	CaseFile  string `json:"case_file"`
	Index     int    `json:"index"`
}

// TestWorker runs seeded cases of one property until the budget is used up.
func TestWorker(t *testing.T) {
	id := os.Getenv("VERIF_PROP")
	if id == "" {
		t.Skip("VERIF_PROP not set")
	}
	p := registry[id]
	if p == nil {
		fmt.Printf("HARNESS-ERROR unknown property %s\n", id)
		return
	}
	tier := os.Getenv("VERIF_TIER")
	if tier == "" {
		tier = "quick"
	}
	base := uint64(envInt("VERIF_SEED", 1))
	shard := int(envInt("VERIF_SHARD", 0))
	budget := time.Duration(envInt("VERIF_BUDGET_S", 10)) * time.Second
	maxRuns := int(envInt("VERIF_MAXRUNS", 1<<30))
	maxViol := int(envInt("VERIF_MAXVIOL", 3))
	outDir := os.Getenv("VERIF_OUT")
	var known []string
	if k := os.Getenv("VERIF_KNOWN"); k != "" {
		known = strings.Split(k, "\x1f")
	}
	warmupProp(t, p)
	sum := &Summary{Rule: p.Rule(), Prop: id, Shard: shard, Probes: map[string]int{}, Faults: map[string]int{}, SwitchPairs: map[string]bool{}}
	sum.Real, sum.Stub = p.Components()
	hashes := map[uint64]bool{}
	start := time.Now()
	sigSeen := map[string]int{}
	for i := int(envInt("VERIF_FIRST", 0)); i < maxRuns && time.Since(start) < budget; i++ {
		seed := simrt.Mix(base, propHash(id), uint64(shard), uint64(i))
		c := p.Gen(seed, tier)
		out := timedRun(t, p, c, false)
		sum.Runs++
		sum.Steps += out.Stats.Steps
		sum.Switches += out.Stats.Switches
		sum.SimSeconds += out.Stats.SimTime.Seconds()
		sum.Quiescences += out.Stats.Quiescences
		sum.Adoptions += out.Stats.Adoptions
		sum.Inconclusive += out.Inconclusive
		sum.MutexBlocks += out.Stats.MutexBlocks
		sum.SelectMulti += out.Stats.SelectBlock
		sum.Tasks += out.Stats.Tasks
		for k, v := range out.Probes {
			sum.Probes[k] += v
		}
		for k, v := range out.Faults {
			sum.Faults[k] += v
		}
		// scheduling faults of this run (what actually fired, not what was configured)
		if out.Stats.Preemptions > 0 {
			sum.Faults["sched:preemption-at-function-entry"] += int(out.Stats.Preemptions)
		}
		if pol := c.Base().Policy; out.Stats.Steps > 0 {
			if pol.StarvePrefix != "" && out.Stats.Steps > pol.StarveFrom {
				sum.Faults["sched:task-starvation-window(run)"]++
			}
			if pol.PermuteMaps {
				sum.Faults["sched:map-order-permutation(run)"]++
			}
			if pol.Kind == "pct" {
				sum.Faults["sched:pct-priority-schedule(run)"]++
			}
		}
		if len(sum.SwitchPairs) < 50000 {
			for k := range out.Stats.SwitchPairs {
				sum.SwitchPairs[k] = true
			}
		}
		if out.Nontrivial {
			sum.Nontrivial++
			if len(hashes) < 200000 {
				hashes[out.Stats.TraceHash] = true
			} else {
				sum.HashesCapped = true
			}
		}
		if len(sum.Samples) < 2 && out.Nontrivial {
			b, _ := json.Marshal(c)
			sum.Samples = append(sum.Samples, b)
		}
		if out.HarnessErr != "" {
			if len(sum.HarnessErrors) < 5 {
				b, _ := json.Marshal(c)
				sum.HarnessErrors = append(sum.HarnessErrors, fmt.Sprintf("seed %d: %s case=%s", seed, out.HarnessErr, b))
			}
			if len(sum.HarnessErrors) >= 5 {
				break
			}
			continue
		}
		if out.Viol != nil {
			isKnown := false
			for _, k := range known {
				if k != "" && strings.Contains(out.Viol.Signature, k) {
					isKnown = true
				}
			}
			sigSeen[out.Viol.Signature]++
			if sigSeen[out.Viol.Signature] > 2 {
				// same signature again: nothing new to report
				if !isKnown && len(sum.Violations) >= maxViol {
					break
				}
				continue
			}
			rec := ViolationRec{Index: i, Seed: seed, Oracle: out.Viol.Oracle, Signature: out.Viol.Signature, Msg: out.Viol.Msg}
			if outDir != "" {
				b, _ := json.MarshalIndent(c, "", " ")
				rec.CaseFile = filepath.Join(outDir, fmt.Sprintf("viol-%s-%d-%d.json", id, shard, seed))
				os.WriteFile(rec.CaseFile, b, 0o644)
			}
			sum.Violations = append(sum.Violations, rec)
			if !isKnown && len(sum.Violations) >= maxViol {
				break
			}
		}
	}
	for h := range hashes {
		sum.Hashes = append(sum.Hashes, h)
	}
	sum.WallS = time.Since(start).Seconds()
	b, _ := json.Marshal(sum)
	if outDir != "" {
		os.WriteFile(filepath.Join(outDir, fmt.Sprintf("summary-%s-%d.json", id, shard)), b, 0o644)
	} else {
		fmt.Printf("SUMMARY %s\n", b)
	}
}

func loadCase(t *testing.T) (Property, Case) {
	path := os.Getenv("VERIF_CASE")
	b, err := os.ReadFile(path)
	if err != nil {
		fmt.Printf("HARNESS-ERROR read case: %v\n", err)
		return nil, nil
	}
	var cm Common
	if err := json.Unmarshal(b, &cm); err != nil {
		fmt.Printf("HARNESS-ERROR decode case: %v\n", err)
		return nil, nil
	}
	p := registry[cm.Prop]
	if p == nil {
		fmt.Printf("HARNESS-ERROR unknown property %q\n", cm.Prop)
		return nil, nil
	}
	c, err := p.Decode(b)
	if err != nil {
		fmt.Printf("HARNESS-ERROR decode case: %v\n", err)
		return nil, nil
	}
	return p, c
}

// TestReplay replays one case file and prints the verdict.
func TestReplay(t *testing.T) {
	if os.Getenv("VERIF_CASE") == "" {
		t.Skip("VERIF_CASE not set")
	}
	p, c := loadCase(t)
	if p == nil {
		return
	}
	verbose := os.Getenv("VERIF_TRACE") != ""
	warmupProp(t, p)
	out := p.Run(t, c, verbose)
	if verbose {
		tr := out.Trace
		if n := int(envInt("VERIF_TRACE_TAIL", 0)); n > 0 && len(tr) > n {
			tr = tr[len(tr)-n:]
		}
		for _, l := range tr {
			fmt.Println(l)
		}
		for _, l := range out.Notes {
			fmt.Println("NOTE", l)
		}
	}
	if out.HarnessErr != "" {
		fmt.Printf("HARNESS-ERROR %s\n", out.HarnessErr)
		return
	}
	if out.Viol != nil {
		v, _ := json.Marshal(out.Viol)
		fmt.Printf("RESULT violation hash=%016x steps=%d %s\n", out.Stats.TraceHash, out.Stats.Steps, v)
		return
	}
	fmt.Printf("RESULT ok hash=%016x steps=%d\n", out.Stats.TraceHash, out.Stats.Steps)
}

// TestMinimise shrinks a failing case while the same oracle keeps failing.
func TestMinimise(t *testing.T) {
	if os.Getenv("VERIF_CASE") == "" || os.Getenv("VERIF_MIN_OUT") == "" {
		t.Skip("VERIF_CASE / VERIF_MIN_OUT not set")
	}
	p, c := loadCase(t)
	if p == nil {
		return
	}
	warmupProp(t, p)
	first := p.Run(t, c, false)
	if first.Viol == nil {
		fmt.Printf("MINIMISE not-reproduced\n")
		return
	}
	oracle := first.Viol.Oracle
	deadline := time.Now().Add(time.Duration(envInt("VERIF_MIN_S", 60)) * time.Second)
	tries := 0
	improved := true
	for improved && tries < 400 && time.Now().Before(deadline) {
		improved = false
		for _, cand := range p.Shrink(c) {
			if tries >= 400 || !time.Now().Before(deadline) {
				break
			}
			tries++
			out := p.Run(t, cand, false)
			if out.HarnessErr == "" && out.Viol != nil && out.Viol.Oracle == oracle {
				c = cand
				improved = true
				break
			}
		}
	}
	b, _ := json.MarshalIndent(c, "", " ")
	os.WriteFile(os.Getenv("VERIF_MIN_OUT"), b, 0o644)
	fmt.Printf("MINIMISE done tries=%d\n", tries)
}

// TestHashes prints trace hashes for a seed range (determinism self-test).
func TestHashes(t *testing.T) {
	id := os.Getenv("VERIF_PROP")
	if id == "" || os.Getenv("VERIF_HASHES") == "" {
		t.Skip()
	}
	p := registry[id]
	base := uint64(envInt("VERIF_SEED", 1))
	n := int(envInt("VERIF_HASHES", 40))
	tier := os.Getenv("VERIF_TIER")
	warmupProp(t, p)
	reverse := os.Getenv("VERIF_REVERSE") != ""
	for k := 0; k < n; k++ {
		i := k
		if reverse {
			// process-position independence: the same seeds in the opposite order must give the same hashes
			i = n - 1 - k
		}
		seed := simrt.Mix(base, propHash(id), 0, uint64(i))
		out := p.Run(t, p.Gen(seed, tier), false)
		v := "ok"
		if out.Viol != nil {
			v = out.Viol.Oracle
		}
		if out.HarnessErr != "" {
			v = "HARNESS:" + out.HarnessErr
		}
		fmt.Printf("HASH %d %016x %d %s\n", i, out.Stats.TraceHash, out.Stats.Steps, v)
	}
}

// TestMintBookmark prints a bookmark produced by this (separate) process: a foreign incarnation for C12.
func TestMintBookmark(t *testing.T) {
	if os.Getenv("VERIF_MINT_BOOKMARK") == "" {
		t.Skip()
	}
	fmt.Printf("BOOKMARK %x\n", mintBookmark())
}
