package worlds

import (
	"context"
	"encoding/json"
	"fmt"
	"strings"
	"testing"
	"time"

	"github.com/cosi-project/runtime/pkg/controller/runtime/zzverif/simrt"
	"github.com/cosi-project/runtime/pkg/resource"
	"github.com/cosi-project/runtime/pkg/state"
)

// ---------------------------------------------------------------------------
// C03 — finalizers gate destruction; blocking helpers never miss or jump (DESIGN §7 C03)

// CondSpec is a WatchFor condition.
type CondSpec struct {
	Phases     []string `json:"phases,omitempty"`
	FinEmpty   bool     `json:"fin_empty,omitempty"`
	EventTypes []string `json:"event_types,omitempty"`
	MinTokens  int      `json:"min_tokens,omitempty"` // custom condition: at least this many tokens
}

// HelperCall is one blocking helper invocation.
type HelperCall struct {
	Kind    string   `json:"kind"` // tad | watchfor | ctxtd
	ID      string   `json:"id"`
	Owner   string   `json:"owner,omitempty"`
	Cond    CondSpec `json:"cond,omitempty"`
	StartMs int      `json:"start_ms,omitempty"`
}

// C03Case is a C03 run.
type C03Case struct {
	Common
	Variant string `json:"variant"`
	Remote  bool   `json:"remote,omitempty"`
	// OldServer (remote runs): the server predates the Teardown / TeardownAndDestroy RPCs, the client falls back to its own helpers
	OldServer bool         `json:"old_server,omitempty"`
	Pre       []RMWCall    `json:"pre"`
	Helpers   []HelperCall `json:"helpers"`
	Actors    [][]RMWCall  `json:"actors"`
}

type c03 struct{}

func init() { register(c03{}) }

func (c03) ID() string { return "C03" }

func (c03) Rule() string {
	return "case = tapped store variant (direct or through the simulated gRPC leg) + pre-existing resources (with/without finalizers, running or tearing down) + 1-3 blocking helpers (TeardownAndDestroy / WatchFor with phase, finalizers-empty, event-type and custom conditions / ContextWithTeardown) started at random virtual times + 2-4 actor tasks adding/removing finalizers, tearing down, destroying, re-creating and updating the same resource + schedule policy; non-trivial = a helper was blocked while >=1 actor commit happened and its outcome depended on later commits; distinct = distinct scheduler trace hash"
}

func (c03) Components() (real, stub []string) {
	return []string{"pkg/state (wrap.go: Teardown, TeardownAndDestroy, WatchFor, ContextWithTeardown; condition.go)", "pkg/state/impl/inmem", "pkg/state/impl/namespaced", "pkg/state/protobuf/client + server (remote runs)"},
		[]string{"Go scheduler choice (simrt)", "OS clock (synctest)", "gRPC/HTTP2 stack (in-process sim transport; remote runs)"}
}

func (c03) Decode(b []byte) (Case, error) {
	var c C03Case
	err := json.Unmarshal(b, &c)
	return &c, err
}

func (c03) Gen(seed uint64, tier string) Case {
	r := simrt.NewRNG(seed)
	c := &C03Case{Common: Common{Prop: "C03", Seed: seed, Tier: tier}}
	c.Variant = []string{"inmem+tap", "namespaced+tap"}[r.Intn(2)]
	c.Remote = remoteAvailable && r.Bool(0.3)
	c.OldServer = c.Remote && r.Bool(0.4)
	nids := 1 + r.Pick([]int{3, 1})
	owner := []string{"", "A"}[r.Pick([]int{3, 1})]
	for i := 0; i < nids; i++ {
		if r.Bool(0.85) {
			p := RMWCall{Kind: "create", ID: fmt.Sprintf("r%d", i), Owner: owner, Val: fmt.Sprintf("pre%d", i)}
			// Fin/Phase on a pre-created resource: applied right after creation
			if r.Bool(0.6) {
				p.Fin = []string{"f1", "f1,f2"}[r.Intn(2)]
			}
			if r.Bool(0.2) {
				p.Phase = "tearingDown"
			}
			c.Pre = append(c.Pre, p)
		}
	}
	nh := 1 + r.Intn(3)
	var prefixes []string
	for i := 0; i < nh; i++ {
		h := HelperCall{ID: fmt.Sprintf("r%d", r.Intn(nids)), Owner: owner}
		if r.Bool(0.15) {
			h.Owner = []string{"", "A"}[r.Intn(2)]
		}
		switch r.Pick([]int{4, 4, 3, 3}) {
		case 3:
			h.Kind = "teardown"
		case 0:
			h.Kind = "tad"
		case 1:
			h.Kind = "watchfor"
			switch r.Pick([]int{3, 3, 2, 2, 1}) {
			case 0:
				h.Cond.Phases = [][]string{{"tearingDown"}, {"running"}, {"running", "tearingDown"}}[r.Intn(3)]
			case 1:
				h.Cond.FinEmpty = true
				if r.Bool(0.5) {
					h.Cond.Phases = []string{"tearingDown"}
				}
			case 2:
				h.Cond.EventTypes = [][]string{{"Destroyed"}, {"Updated"}, {"Created"}, {"Created", "Destroyed"}}[r.Intn(4)]
			case 3:
				h.Cond.MinTokens = 1 + r.Intn(2)
			case 4:
				h.Cond.EventTypes = []string{"Updated"}
				h.Cond.FinEmpty = true
			}
		case 2:
			h.Kind = "ctxtd"
		}
		if r.Bool(0.6) {
			h.StartMs = r.Intn(3000)
		}
		c.Helpers = append(c.Helpers, h)
		prefixes = append(prefixes, fmt.Sprintf("helper%d", i))
	}
	na := 2 + r.Intn(3)
	uniq := 0
	maxCalls := 4
	if tier == "thorough" {
		maxCalls = 7
	}
	for i := 0; i < na; i++ {
		var calls []RMWCall
		n := 1 + r.Intn(maxCalls)
		for j := 0; j < n; j++ {
			uniq++
			call := RMWCall{API: "state", ID: fmt.Sprintf("r%d", r.Intn(nids)), Owner: owner, Val: fmt.Sprintf("a%d_%d", i, uniq), Phase: "any"}
			switch r.Pick([]int{3, 5, 2, 2, 1, 3}) {
			case 0:
				call.Kind = "addfin"
				call.Fin = []string{"f1", "f2", "f3"}[r.Intn(3)]
			case 1:
				call.Kind = "remfin"
				call.Fin = []string{"f1", "f2", "f3"}[r.Pick([]int{3, 2, 1})]
			case 2:
				call.Kind = "teardown"
			case 3:
				call.Kind = "destroy"
			case 4:
				call.Kind = "create"
			case 5:
				call.Kind = "uwc"
				call.Mut = "token"
			}
			if r.Bool(0.5) {
				call.SleepMs = 1 + r.Intn(2500)
			}
			if r.Bool(0.25) {
				call.After = []string{"td", "fin-empty", "fin-added", "destroyed", "created"}[r.Intn(5)]
				call.SleepMs = 0
			}
			calls = append(calls, call)
		}
		c.Actors = append(c.Actors, calls)
		prefixes = append(prefixes, fmt.Sprintf("actor%d", i))
	}
	c.Policy = genPolicy(r, prefixes)
	return c
}

func (c03) Shrink(cs Case) []Case {
	c := cs.(*C03Case)
	var out []Case
	if len(c.Helpers) > 1 {
		for i := range c.Helpers {
			n := cloneJSON(c)
			n.Helpers = dropAt(n.Helpers, i)
			out = append(out, n)
		}
	}
	for i := range c.Actors {
		n := cloneJSON(c)
		n.Actors = dropAt(n.Actors, i)
		out = append(out, n)
	}
	for i := range c.Actors {
		for j := range c.Actors[i] {
			n := cloneJSON(c)
			n.Actors[i] = dropAt(n.Actors[i], j)
			out = append(out, n)
		}
	}
	for i := range c.Pre {
		n := cloneJSON(c)
		n.Pre = dropAt(n.Pre, i)
		out = append(out, n)
	}
	if c.OldServer {
		n := cloneJSON(c)
		n.OldServer = false
		out = append(out, n)
	}
	if c.Remote {
		n := cloneJSON(c)
		n.Remote = false
		n.OldServer = false
		out = append(out, n)
	}
	for i := range c.Actors {
		for j, call := range c.Actors[i] {
			if call.SleepMs != 0 {
				n := cloneJSON(c)
				n.Actors[i][j].SleepMs = 0
				out = append(out, n)
			}
		}
	}
	for i, h := range c.Helpers {
		if h.StartMs != 0 {
			n := cloneJSON(c)
			n.Helpers[i].StartMs = 0
			out = append(out, n)
		}
	}
	if c.Variant != "inmem+tap" {
		n := cloneJSON(c)
		n.Variant = "inmem+tap"
		out = append(out, n)
	}
	if c.Policy.Kind != "walk" || c.Policy.SwitchProb != 0.2 || c.Policy.PermuteMaps || c.Policy.StarvePrefix != "" || c.Policy.PreemptProb != 0 {
		n := cloneJSON(c)
		n.Policy = simrt.Policy{Kind: "walk", SwitchProb: 0.2}
		out = append(out, n)
	}
	return out
}

// seqEvent is one event of the resource's event sequence as a watcher established at position p sees it.
type seqEvent struct {
	Type      string
	Snap      Snap
	Tombstone bool
	LogIdx    int // state index after which this event is current (p for the initial event)
}

// eventSeq builds the event sequence a single-resource watch established after log[:p] delivers.
func eventSeq(log []Commit, states []resState, ns, typ, id string, p int) []seqEvent {
	var out []seqEvent
	if states[p].Exists {
		out = append(out, seqEvent{Type: "Created", Snap: states[p].Snap, LogIdx: p})
	} else {
		out = append(out, seqEvent{Type: "Destroyed", Tombstone: true, LogIdx: p})
	}
	for i := p; i < len(log); i++ {
		c := log[i]
		if c.NS != ns || c.Type != typ || c.ID != id {
			continue
		}
		if c.Kind == "put" {
			if states[i].Exists {
				out = append(out, seqEvent{Type: "Updated", Snap: c.Snap, LogIdx: i + 1})
			} else {
				out = append(out, seqEvent{Type: "Created", Snap: c.Snap, LogIdx: i + 1})
			}
		} else {
			out = append(out, seqEvent{Type: "Destroyed", Snap: states[i].Snap, LogIdx: i + 1})
		}
	}
	return out
}

// condMatches is the reference evaluation of a WatchFor condition, written from the documentation.
func condMatches(c CondSpec, e seqEvent) bool {
	if len(c.EventTypes) > 0 {
		ok := false
		for _, t := range c.EventTypes {
			if t == e.Type {
				ok = true
			}
		}
		if !ok {
			return false
		}
	}
	if c.MinTokens > 0 {
		if e.Tombstone {
			return false
		}
		n := 0
		if e.Snap.Tokens != "" {
			n = len(strings.Split(e.Snap.Tokens, ","))
		}
		if n < c.MinTokens {
			return false
		}
	}
	if c.FinEmpty {
		if e.Type == "Destroyed" {
			return false
		}
		if e.Snap.Fins != "" {
			return false
		}
	}
	if len(c.Phases) > 0 {
		ph := e.Snap.Phase
		if e.Tombstone {
			ph = "running" // a tombstone's metadata is freshly built: phase running
		}
		ok := false
		for _, p := range c.Phases {
			if p == ph {
				ok = true
			}
		}
		if !ok {
			return false
		}
	}
	return true
}

func condFuncs(c CondSpec) []state.WatchForConditionFunc {
	var fs []state.WatchForConditionFunc
	if len(c.Phases) > 0 {
		var ps []resource.Phase
		for _, p := range c.Phases {
			if p == "running" {
				ps = append(ps, resource.PhaseRunning)
			} else {
				ps = append(ps, resource.PhaseTearingDown)
			}
		}
		fs = append(fs, state.WithPhases(ps...))
	}
	if c.FinEmpty {
		fs = append(fs, state.WithFinalizerEmpty())
	}
	if len(c.EventTypes) > 0 {
		var ts []state.EventType
		for _, t := range c.EventTypes {
			switch t {
			case "Created":
				ts = append(ts, state.Created)
			case "Updated":
				ts = append(ts, state.Updated)
			case "Destroyed":
				ts = append(ts, state.Destroyed)
			}
		}
		fs = append(fs, state.WithEventTypes(ts...))
	}
	if c.MinTokens > 0 {
		n := c.MinTokens
		fs = append(fs, state.WithCondition(func(r resource.Resource) (bool, error) {
			if resource.IsTombstone(r) {
				return false, nil
			}
			return len(SpecOf(r).Tokens) >= n, nil
		}))
	}
	return fs
}

type helperRec struct {
	Call        HelperCall
	Name        string
	Invoke, Ret int
	Returned    bool
	Err         error
	Result      *Snap
	ResultTomb  bool
	// ctxtd
	TdCtx          context.Context
	Rmw            *rmwRec
	CancelSeenAt   int // log length at which a commit-time sample first saw the context cancelled (-1 = never)
	CancelledAtEnd bool
}

func (c03) Run(t *testing.T, cs Case, trace bool) *Outcome {
	c := cs.(*C03Case)
	out := &Outcome{}
	var helpers []*helperRec
	st, panics, berr := simrt.Run(t, simrt.Config{Seed: c.Seed, Policy: c.Policy, Trace: trace}, func(s *simrt.Sim) {
		w := NewStoreWorld(c.Variant, HistCfg{})
		ctx, cancel := context.WithCancel(context.Background())
		defer cancel()
		st := w.St
		var tr *simTransport
		if c.Remote {
			var tf *TransportFaults
			if c.OldServer {
				tf = &TransportFaults{OldServer: true}
				out.fault("old-server-unimplemented(run)")
			}
			st, tr = remoteState(w.Core, tf, out)
		}
		for _, p := range c.Pre {
			r := NewRes("ns1", TypeA, p.ID, p.Val)
			for _, f := range strings.Split(p.Fin, ",") {
				if f != "" {
					r.Metadata().Finalizers().Add(f)
				}
			}
			if err := w.St.Create(ctx, r, state.WithCreateOwner(p.Owner)); err != nil {
				out.HarnessErr = "pre-create: " + err.Error()
				return
			}
			if p.Phase == "tearingDown" {
				if _, err := w.St.Teardown(ctx, r.Metadata(), state.WithTeardownOwner(p.Owner)); err != nil {
					out.HarnessErr = "pre-teardown: " + err.Error()
					return
				}
			}
		}
		preLen := len(w.Log)
		trig := newCommitTriggers(TypeA)
		for _, cm := range w.Log {
			trig.fire(cm)
		}
		w.onCommit = func(cm Commit) {
			trig.fire(cm)
			for _, h := range helpers {
				if h.TdCtx != nil && h.CancelSeenAt < 0 && h.TdCtx.Err() != nil {
					h.CancelSeenAt = len(w.Log) - 1 // cancelled before this commit was made
				}
			}
		}
		for i, hc := range c.Helpers {
			h := &helperRec{Call: hc, Name: fmt.Sprintf("helper%d", i), CancelSeenAt: -1}
			helpers = append(helpers, h)
			s.Spawn(h.Name, func() {
				if hc.StartMs > 0 {
					simrt.Sleep(time.Duration(hc.StartMs) * time.Millisecond)
				}
				simrt.Yield("helper.start")
				ptr := resource.NewMetadata("ns1", TypeA, hc.ID, resource.VersionUndefined)
				h.Invoke = len(w.Log)
				switch hc.Kind {
				case "tad":
					h.Err = st.TeardownAndDestroy(ctx, ptr, state.WithTeardownAndDestroyOwner(hc.Owner))
				case "watchfor":
					var res resource.Resource
					res, h.Err = st.WatchFor(ctx, ptr, condFuncs(hc.Cond)...)
					if h.Err == nil {
						if resource.IsTombstone(res) {
							h.ResultTomb = true
						} else {
							sn := SnapOf(res)
							h.Result = &sn
						}
					}
				case "ctxtd":
					h.TdCtx, h.Err = st.ContextWithTeardown(ctx, ptr)
				case "teardown":
					h.Rmw = &rmwRec{Task: h.Name, Call: RMWCall{Kind: "teardown", API: "state", ID: hc.ID, Owner: hc.Owner}, Invoke: len(w.Log)}
					execRMW(ctx, st, h.Rmw.Call, h.Name, h.Rmw)
					h.Rmw.Ret = len(w.Log)
					h.Err = h.Rmw.Err
					if h.Err != nil {
						h.Rmw.Class, _ = classify(h.Err, "ns1", TypeA)
					}
				}
				h.Ret = len(w.Log)
				h.Returned = true
			})
		}
		for i, calls := range c.Actors {
			name := fmt.Sprintf("actor%d", i)
			s.Spawn(name, func() {
				for _, call := range calls {
					if call.SleepMs > 0 {
						simrt.Sleep(time.Duration(call.SleepMs) * time.Millisecond)
					}
					if call.After != "" {
						if !trig.wait(ctx, call.After, call.ID) {
							return
						}
						out.fault("reactive-actor:" + call.After + "->" + call.Kind)
					}
					simrt.Yield("actor.op")
					rec := &rmwRec{Task: name, Call: call}
					execRMW(ctx, st, call, name, rec)
					if rec.Err == nil {
						out.probe("actor-ok:" + call.Kind)
					}
				}
			})
		}
		if r := s.Settle(600000); r != simrt.Quiescent {
			out.HarnessErr = fmt.Sprintf("C03 run did not become quiescent: %v live=%v", r, s.Live())
			return
		}
		if ps := s.Panics(); len(ps) > 0 {
			out.violate("C03/panic", "panic:"+firstLine(ps[0].Value), "task %s panicked: %s\n%s", ps[0].Task, ps[0].Value, ps[0].Stack)
			return
		}
		tr.checkServerAlive("C03", out)
		log := w.Log
		// S1: no destroy while finalizers are pending
		for _, id := range []string{"r0", "r1"} {
			states := statesOf(log, "ns1", TypeA, id)
			for i, cm := range log {
				if cm.ID == id && cm.Type == TypeA && cm.Kind == "destroy" && states[i].Exists && states[i].Snap.Fins != "" {
					out.violate("C03/destroy-with-finalizers", "destroy-with-finalizers", "commit %d destroys %s while it holds finalizers [%s]\nlog: %s", i, id, states[i].Snap.Fins, renderLogFull(log, id))
				}
			}
		}
		for _, h := range helpers {
			if h.TdCtx != nil {
				h.CancelledAtEnd = h.TdCtx.Err() != nil
			}
			checkHelper(h, log, preLen, out)
		}
		if trace {
			out.Trace = s.Trace()
			for _, h := range helpers {
				out.Notes = append(out.Notes, fmt.Sprintf("%s %+v [%d,%d] returned=%v err=%v result=%+v tomb=%v cancelSeen=%d cancelledEnd=%v", h.Name, h.Call, h.Invoke, h.Ret, h.Returned, h.Err, h.Result, h.ResultTomb, h.CancelSeenAt, h.CancelledAtEnd))
			}
			out.Notes = append(out.Notes, "log: "+renderLogFull(log, ""))
		}
		cancel()
		s.Settle(200000)
		if trace {
			out.Notes = append(out.Notes, fmt.Sprintf("live after cancel: %v", s.Live()))
		}
	})
	out.finish(st, panics, berr, true)
	return out
}

func checkHelper(h *helperRec, log []Commit, preLen int, out *Outcome) {
	id := h.Call.ID
	states := statesOf(log, "ns1", TypeA, id)
	desc := fmt.Sprintf("%s %s(id=%s owner=%q cond=%+v) invoked at log %d", h.Name, h.Call.Kind, id, h.Call.Owner, h.Call.Cond, h.Invoke)
	fail := func(oracle, sig, format string, args ...any) {
		out.violate("C03/"+oracle, sig, "%s: %s\nlog: %s", desc, fmt.Sprintf(format, args...), renderLogFull(log, id))
	}
	cur := states[len(states)-1]
	switch h.Call.Kind {
	case "teardown":
		if !h.Returned {
			fail("teardown-blocked", "teardown-blocked", "Teardown did not return")
			return
		}
		checkRMW("C03", h.Rmw, log, out)
		out.probe("teardown-checked")
		if h.Ret > h.Invoke+1 {
			out.Nontrivial = true
		}
	case "tad":
		if h.Returned {
			if h.Err == nil {
				destroyed := false
				for i := h.Invoke; i < h.Ret && i < len(log); i++ {
					if log[i].ID == id && log[i].Type == TypeA && log[i].Kind == "destroy" {
						destroyed = true
					}
				}
				if !destroyed {
					fail("tad-success-without-destroy", "tad-no-destroy", "TeardownAndDestroy returned success at log %d but no destroy of the resource was committed during the call", h.Ret)
				}
				out.probe("tad-ok")
				if h.Ret > h.Invoke+1 {
					out.Nontrivial = true
				}
			} else {
				out.probe("tad-err")
			}
			return
		}
		// still blocked at quiescence: legal only while finalizers are pending on an existing resource
		out.probe("tad-blocked-at-quiescence")
		if !cur.Exists || cur.Snap.Fins == "" {
			fail("tad-missed-wakeup", "tad-missed-wakeup", "TeardownAndDestroy is still blocked at quiescence although the resource %s", map[bool]string{true: "has no finalizers left (" + cur.Snap.Phase + ")", false: "is gone"}[cur.Exists])
		}
	case "watchfor":
		if h.Returned && h.Err != nil {
			fail("watchfor-error", "watchfor-error", "WatchFor failed: %v", h.Err)
			return
		}
		if h.Returned {
			okAny := false
			var why []string
			for p := h.Invoke; p <= h.Ret && p < len(states); p++ {
				seq := eventSeq(log, states, "ns1", TypeA, id, p)
				var first *seqEvent
				for k := range seq {
					if condMatches(h.Call.Cond, seq[k]) {
						first = &seq[k]
						break
					}
				}
				switch {
				case first == nil:
					why = append(why, fmt.Sprintf("p=%d: no satisfying state", p))
				case first.LogIdx > h.Ret:
					why = append(why, fmt.Sprintf("p=%d: first satisfying state only after the return", p))
				case first.Tombstone && !h.ResultTomb && h.Result != nil && h.Result.Version == "undefined" && h.Result.ID == id:
					// over the wire a tombstone arrives as a resource with undefined version and empty spec
					okAny = true
				case first.Tombstone != h.ResultTomb || (!first.Tombstone && (h.Result == nil || *h.Result != first.Snap)):
					why = append(why, fmt.Sprintf("p=%d: first satisfying state is %s(%s@%s fins=[%s] %s tokens=[%s])", p, first.Type, first.Snap.ID, first.Snap.Version, first.Snap.Fins, first.Snap.Phase, first.Snap.Tokens))
				default:
					okAny = true
				}
				if okAny {
					break
				}
			}
			if !okAny {
				got := "tombstone"
				if h.Result != nil {
					got = fmt.Sprintf("%s@%s fins=[%s] %s tokens=[%s]", h.Result.ID, h.Result.Version, h.Result.Fins, h.Result.Phase, h.Result.Tokens)
				}
				fail("watchfor-not-first", "watchfor-not-first", "WatchFor returned %s at log %d, which is not the first satisfying state for any establishment point:\n  %s", got, h.Ret, strings.Join(why, "\n  "))
			}
			out.probe("watchfor-returned")
			if h.Ret > h.Invoke {
				out.Nontrivial = true
			}
			return
		}
		out.probe("watchfor-blocked-at-quiescence")
		// blocked: violation only if every establishment point would have seen a satisfying state
		all := true
		for p := h.Invoke; p < len(states); p++ {
			seq := eventSeq(log, states, "ns1", TypeA, id, p)
			found := false
			for k := range seq {
				if condMatches(h.Call.Cond, seq[k]) {
					found = true
				}
			}
			if !found {
				all = false
				break
			}
		}
		if all {
			fail("watchfor-missed", "watchfor-missed", "WatchFor is still blocked at quiescence although a satisfying state occurred after every possible establishment point")
		}
	case "ctxtd":
		if !h.Returned {
			fail("ctxtd-blocked", "ctxtd-blocked", "ContextWithTeardown did not return")
			return
		}
		if h.Err != nil {
			fail("ctxtd-error", "ctxtd-error", "ContextWithTeardown failed: %v", h.Err)
			return
		}
		trigger := func(p, upto int) bool {
			seq := eventSeq(log[:min(upto, len(log))], states, "ns1", TypeA, id, p)
			for _, e := range seq {
				if e.Type == "Destroyed" || e.Snap.Phase == "tearingDown" {
					return true
				}
			}
			return false
		}
		if h.CancelledAtEnd {
			out.probe("ctxtd-cancelled")
			if !trigger(h.Invoke, len(log)) {
				fail("ctxtd-spurious-cancel", "ctxtd-spurious-cancel", "teardown-bound context is cancelled although the resource was never torn down, destroyed or absent since the call")
			}
		} else {
			out.probe("ctxtd-live")
			if trigger(h.Ret, len(log)) {
				fail("ctxtd-missed-cancel", "ctxtd-missed-cancel", "teardown-bound context is still live at quiescence although the resource was torn down / destroyed / absent after the call returned")
			}
		}
		if h.CancelSeenAt >= 0 && !trigger(h.Invoke, h.CancelSeenAt) {
			fail("ctxtd-early-cancel", "ctxtd-early-cancel", "teardown-bound context was already cancelled when commit %d was made, before any teardown/destroy/absence existed", h.CancelSeenAt)
		}
		if h.Ret > h.Invoke || h.CancelledAtEnd {
			out.Nontrivial = true
		}
	}
}
