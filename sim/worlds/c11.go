package worlds

import (
	"context"
	"encoding/json"
	"errors"
	"fmt"
	"regexp"
	"strconv"
	"strings"
	"testing"
	"time"

	"google.golang.org/protobuf/types/known/timestamppb"

	"github.com/cosi-project/runtime/api/v1alpha1"
	"github.com/cosi-project/runtime/pkg/controller/runtime/zzverif/simrt"
	"github.com/cosi-project/runtime/pkg/resource"
	"github.com/cosi-project/runtime/pkg/state"
)

// ---------------------------------------------------------------------------
// C11 — gRPC transparency; the server never crashes (DESIGN §7 C11)

// DiffOp is one operation applied to the direct and the remote world.
type DiffOp struct {
	Kind    string `json:"kind"` // create update destroy get list teardown tad addfin remfin uwc modify watch sleep
	Type    string `json:"type,omitempty"`
	ID      string `json:"id,omitempty"`
	Owner   string `json:"owner,omitempty"`
	Phase   string `json:"phase,omitempty"`
	Mut     string `json:"mut,omitempty"`
	Val     string `json:"val,omitempty"`
	Fin     string `json:"fin,omitempty"`
	Ver     int    `json:"ver,omitempty"`
	Fresh   bool   `json:"fresh,omitempty"`
	Sel     int    `json:"sel,omitempty"`   // selector table index (list / kind watch), 0 = none
	IDRe    string `json:"id_re,omitempty"` // id regexp (list / kind watch)
	WKind   string `json:"wkind,omitempty"` // watch: single | kind | agg
	Boot    bool   `json:"boot,omitempty"`
	BootBM  bool   `json:"boot_bm,omitempty"`
	Tail    int    `json:"tail,omitempty"`
	FromBM  int    `json:"from_bm,omitempty"` // watch: resume from the bookmark of the (FromBM-1)-th event of the first kind watcher
	SkipUnm bool   `json:"skip_unmarshal,omitempty"`
	Ms      int    `json:"ms,omitempty"`
}

// RawReq is a hand-crafted (possibly malformed) wire request (server totality part).
type RawReq struct {
	Kind string `json:"kind"` // which crafted request (index into the table)
	N    int    `json:"n"`
}

// C11Case is a C11 run.
type C11Case struct {
	Common
	Hist      HistCfg  `json:"hist"`
	OldServer bool     `json:"old_server,omitempty"`
	Ops       []DiffOp `json:"ops"`
	Raw       []RawReq `json:"raw"`
	// Overrun adds a scenario in which a stalled remote subscriber overruns a tiny history: the terminal Errored
	// event must travel through the server and reach the client
	Overrun *WatchSpec `json:"overrun,omitempty"`
}

type c11 struct{}

func init() { register(c11{}) }

func (c11) ID() string { return "C11" }

func (c11) Rule() string {
	return "case = history config + (optionally) an old server without Teardown RPCs + a sequence of <=30 operations (create/update/destroy/get/list with label and id selectors/teardown/teardown-and-destroy/finalizers/update-with-conflicts/modify, owners, expected phases, stale versions; watches: single/kind/aggregated with bootstrap, bootstrap bookmark, tail, start-from-bookmark, selectors, skip-unmarshal) applied step by step to a direct state and to client-adapter -> simulated transport (every message marshalled and unmarshalled, status mapping as grpc-go) -> server -> state, comparing results, error classes, written-back metadata and at quiescence the watch event sequences + <=20 hand-crafted malformed wire requests against the server; non-trivial = >=1 successful write, >=1 failing call and >=1 watch with events compared; distinct = distinct (operation sequence, schedule) hash"
}

func (c11) Components() (real, stub []string) {
	return []string{"pkg/state/protobuf/client (adapter, error mapping, query translation, watch adapter)", "pkg/state/protobuf/server (handlers, helpers)", "pkg/resource/protobuf (marshal/unmarshal, registry)", "api/v1alpha1 vtproto marshalling of every request and response", "pkg/state (wrap)", "pkg/state/impl/inmem"},
		[]string{"gRPC/HTTP2 stack: in-process transport at the v1alpha1.StateClient / StateServer interfaces (marshals every message, maps handler errors through status like grpc-go, handler panic = server crash)", "Go scheduler choice (simrt)", "OS clock (synctest)"}
}

func (c11) Decode(b []byte) (Case, error) {
	var c C11Case
	err := json.Unmarshal(b, &c)
	return &c, err
}

// selectors is the table of label selectors used by lists and kind watches (index 0 = none).
func selectorOpts(i int) [][]resource.LabelQueryOption {
	switch i {
	case 1:
		return [][]resource.LabelQueryOption{{resource.LabelEqual("k", "1")}}
	case 2:
		return [][]resource.LabelQueryOption{{resource.LabelExists("k")}}
	case 3:
		return [][]resource.LabelQueryOption{{resource.LabelExists("k", resource.NotMatches)}}
	case 4:
		return [][]resource.LabelQueryOption{{resource.LabelIn("k", []string{"0", "2"})}}
	case 5:
		return [][]resource.LabelQueryOption{{resource.LabelLTNumeric("k", "2")}}
	case 6:
		return [][]resource.LabelQueryOption{{resource.LabelLTE("k", "1")}}
	case 7:
		return [][]resource.LabelQueryOption{{resource.LabelEqual("k", "0")}, {resource.LabelEqual("k", "2")}} // OR of two queries
	case 8:
		return [][]resource.LabelQueryOption{{resource.LabelExists("k"), resource.LabelEqual("k", "1", resource.NotMatches)}} // AND
	case 9:
		return [][]resource.LabelQueryOption{{resource.LabelIn("k", nil)}} // empty set
	case 10:
		return [][]resource.LabelQueryOption{{resource.LabelLTENumeric("k", "abc")}} // non-numeric operand
	case 11:
		return [][]resource.LabelQueryOption{{resource.LabelLTNumeric("k", "1Ki")}} // unit suffix
	case 12:
		return [][]resource.LabelQueryOption{{resource.LabelEqual("k", "1", resource.NotMatches), resource.LabelExists("k")}} // inverted term first
	case 13:
		return [][]resource.LabelQueryOption{{resource.LabelExists("z", resource.NotMatches), resource.LabelIn("k", []string{"0", "1"})}}
	case 14:
		return [][]resource.LabelQueryOption{{resource.LabelLT("k", "2", resource.NotMatches), resource.LabelLTENumeric("k", "2")}, {resource.LabelExists("k", resource.NotMatches)}}
	}
	return nil
}

const numSelectors = 15

func (c11) Gen(seed uint64, tier string) Case {
	r := simrt.NewRNG(seed)
	c := &C11Case{Common: Common{Prop: "C11", Seed: seed, Tier: tier}}
	// the default history (100 events) outlasts the whole sequence: lag-dependent overruns are C02's and C13's
	// business and would make the two worlds diverge legitimately
	c.OldServer = r.Bool(0.25)
	n := 6 + r.Intn(20)
	if tier == "thorough" {
		n = 10 + r.Intn(35)
	}
	uniq := 0
	for i := 0; i < n; i++ {
		uniq++
		op := DiffOp{Type: []string{TypeA, TypeB}[r.Pick([]int{4, 1})], ID: "r" + strconv.Itoa(r.Pick([]int{5, 3, 1})), Val: fmt.Sprintf("v%d", uniq)}
		op.Owner = owners[r.Pick([]int{4, 2, 1})]
		switch r.Pick([]int{4, 6, 2, 3, 3, 2, 2, 2, 2, 2, 2, 4, 1}) {
		case 0:
			op.Kind = "create"
			if r.Bool(0.5) {
				op.Mut = "label:k=" + strconv.Itoa(r.Intn(3))
			}
		case 1:
			op.Kind = "update"
			op.Phase = []string{"", "any", "running", "tearingDown"}[r.Pick([]int{4, 3, 1, 1})]
			op.Ver = 1 + r.Intn(3)
			op.Fresh = r.Bool(0.6)
			op.Mut = []string{"val", "teardown", "running", "fin+f1", "fin-f1", "label:k=0", "label:k=1", "label:k=2"}[r.Intn(8)]
		case 2:
			op.Kind = "destroy"
		case 3:
			op.Kind = "get"
			op.SkipUnm = r.Bool(0.2)
		case 4:
			op.Kind = "list"
			op.Sel = r.Intn(numSelectors)
			if r.Bool(0.3) {
				op.IDRe = []string{"^r0$", "r[01]", "^x", ".*"}[r.Intn(4)]
			}
			op.SkipUnm = r.Bool(0.2)
		case 5:
			op.Kind = "teardown"
		case 6:
			op.Kind = "tad"
		case 7:
			op.Kind = "addfin"
			op.Fin = []string{"f1", "f2"}[r.Intn(2)]
		case 8:
			op.Kind = "remfin"
			op.Fin = []string{"f1", "f2"}[r.Intn(2)]
		case 9:
			op.Kind = "uwc"
			op.Phase = []string{"", "any", "tearingDown"}[r.Pick([]int{3, 2, 1})]
			op.Mut = []string{"token", "label", "noop", "fail"}[r.Pick([]int{5, 2, 1, 1})]
		case 10:
			op.Kind = "modify"
			op.Phase = []string{"", "any", "tearingDown"}[r.Pick([]int{3, 2, 1})]
			op.Mut = []string{"token", "label", "noop", "fail"}[r.Pick([]int{5, 2, 1, 1})]
		case 11:
			op.Kind = "watch"
			op.WKind = []string{"single", "kind", "agg"}[r.Pick([]int{2, 3, 3})]
			if op.WKind != "single" {
				op.Boot = r.Bool(0.5)
				op.BootBM = !op.Boot && r.Bool(0.5)
				if r.Bool(0.4) {
					op.Sel = r.Intn(numSelectors)
				}
				if r.Bool(0.2) {
					op.IDRe = []string{"^r0$", "r[01]"}[r.Intn(2)]
				}
			}
			if !op.Boot {
				switch r.Pick([]int{5, 2, 2}) {
				case 1:
					op.Tail = 1 + r.Intn(6)
				case 2:
					op.FromBM = 1 + r.Intn(8)
				}
			}
			op.SkipUnm = r.Bool(0.15)
		case 12:
			op.Kind = "sleep"
			op.Ms = 1 + r.Intn(3000)
		}
		c.Ops = append(c.Ops, op)
	}
	if r.Bool(0.3) {
		c.Overrun = &WatchSpec{Kind: []string{"kind", "agg", "single"}[r.Intn(3)], Type: TypeA, ID: "", Bootstrap: r.Bool(0.5), StallAfter: 1 + r.Intn(2), StallMs: 5000 + r.Intn(5000)}
		if c.Overrun.Kind == "single" {
			c.Overrun.ID, c.Overrun.Bootstrap = "r0", false
		}
	}
	nr := 2 + r.Intn(8)
	for i := 0; i < nr; i++ {
		c.Raw = append(c.Raw, RawReq{Kind: rawKinds[r.Intn(len(rawKinds))], N: r.Intn(1000)})
	}
	c.Policy = genPolicy(r, nil)
	return c
}

func (c11) Shrink(cs Case) []Case {
	c := cs.(*C11Case)
	var out []Case
	if len(c.Raw) > 0 {
		n := cloneJSON(c)
		n.Raw = nil
		out = append(out, n)
	}
	if len(c.Ops) > 0 && len(c.Raw) > 0 {
		n := cloneJSON(c)
		n.Ops = nil
		out = append(out, n)
	}
	if l := len(c.Ops); l > 3 {
		n := cloneJSON(c)
		n.Ops = n.Ops[:l/2]
		out = append(out, n)
	}
	for i := range c.Ops {
		n := cloneJSON(c)
		n.Ops = dropAt(n.Ops, i)
		out = append(out, n)
	}
	for i := range c.Raw {
		n := cloneJSON(c)
		n.Raw = dropAt(n.Raw, i)
		out = append(out, n)
	}
	if c.OldServer {
		n := cloneJSON(c)
		n.OldServer = false
		out = append(out, n)
	}
	if c.Overrun != nil {
		n := cloneJSON(c)
		n.Overrun = nil
		out = append(out, n)
		if len(c.Ops) > 0 || len(c.Raw) > 0 {
			n2 := cloneJSON(c)
			n2.Ops, n2.Raw = nil, nil
			out = append(out, n2)
		}
	}
	if c.Hist != (HistCfg{}) {
		n := cloneJSON(c)
		n.Hist = HistCfg{}
		out = append(out, n)
	}
	if c.Policy.Kind != "walk" || c.Policy.SwitchProb != 0.2 || c.Policy.PermuteMaps || c.Policy.StarvePrefix != "" || c.Policy.PreemptProb != 0 {
		n := cloneJSON(c)
		n.Policy = simrt.Policy{Kind: "walk", SwitchProb: 0.2}
		out = append(out, n)
	}
	return out
}

// side is one of the two worlds.
type side struct {
	name    string
	st      state.State
	core    state.CoreState // the store behind it (direct handle)
	held    map[string]resource.Resource
	watches []*WatchRec
}

type opResult struct {
	Err    string // class
	ErrMsg string
	Snap   *Snap
	List   string
	Ready  bool
	Obj    *Snap // caller's object after the call (write-back)
}

func errClassOf(err error) string {
	if err == nil {
		return "ok"
	}
	c, _ := classify(err, "ns1", TypeA)
	switch {
	case errors.Is(err, errMutator):
		return "mutator"
	case c.NotFound:
		return "notfound"
	case c.Owner:
		return "owner-conflict"
	case c.Phase:
		return "phase-conflict"
	case c.Conflict:
		return "conflict"
	case state.IsInvalidWatchBookmarkError(err):
		return "invalid-bookmark"
	case errors.Is(err, context.DeadlineExceeded) || strings.Contains(err.Error(), "DeadlineExceeded") || strings.Contains(err.Error(), "deadline exceeded"):
		return "deadline"
	}
	return "other"
}

func listOptsOf(op DiffOp) []state.ListOption {
	var lo []state.ListOption
	for _, q := range selectorOpts(op.Sel) {
		lo = append(lo, state.WithLabelQuery(q...))
	}
	if op.IDRe != "" {
		lo = append(lo, state.WithIDQuery(resource.IDRegexpMatch(regexp.MustCompile(op.IDRe))))
	}
	if op.SkipUnm {
		lo = append(lo, state.WithListUnmarshalOptions(state.WithSkipProtobufUnmarshal()))
	}
	return lo
}

func writeBack(r resource.Resource) *Snap {
	s := SnapOf(r)
	// only version / owner / update-time are promised to be written back identically
	return &Snap{ID: s.ID, Version: s.Version, Owner: s.Owner, Updated: s.Updated}
}

func (sd *side) apply(ctx context.Context, op DiffOp, env *watchEnv, bookmarks func() [][]byte) opResult {
	var res opResult
	key := op.Type + "/" + op.ID
	ptr := resource.NewMetadata("ns1", op.Type, op.ID, resource.VersionUndefined)
	setErr := func(err error) {
		res.Err = errClassOf(err)
		if err != nil {
			res.ErrMsg = err.Error()
		}
	}
	switch op.Kind {
	case "create":
		r := NewRes("ns1", op.Type, op.ID, op.Val)
		applyMut(r, CrudOp{Mut: op.Mut, Val: op.Val})
		err := sd.st.Create(ctx, r, state.WithCreateOwner(op.Owner))
		setErr(err)
		if err == nil {
			res.Obj = writeBack(r)
			sd.held[key] = r
		}
	case "get":
		var gopts []state.GetOption
		if op.SkipUnm {
			gopts = append(gopts, state.WithGetUnmarshalOptions(state.WithSkipProtobufUnmarshal()))
		}
		r, err := sd.st.Get(ctx, ptr, gopts...)
		setErr(err)
		if err == nil {
			s := SnapOf(r)
			res.Snap = &s
			if !op.SkipUnm {
				sd.held[key] = r
			}
		}
	case "list":
		l, err := sd.st.List(ctx, resource.NewMetadata("ns1", op.Type, "", resource.VersionUndefined), listOptsOf(op)...)
		setErr(err)
		if err == nil {
			res.List = renderList(l)
		}
	case "update":
		if op.Fresh {
			if r, err := sd.st.Get(ctx, ptr); err == nil {
				sd.held[key] = r
			}
		}
		var r resource.Resource
		if h := sd.held[key]; h != nil {
			r = h.DeepCopy()
		} else {
			r = NewRes("ns1", op.Type, op.ID, op.Val)
			v, _ := resource.ParseVersion(strconv.Itoa(op.Ver))
			r.Metadata().SetVersion(v)
			_ = r.Metadata().SetOwner(op.Owner)
		}
		applyMut(r, CrudOp{Mut: op.Mut, Val: op.Val})
		err := sd.st.Update(ctx, r, updateOpts(CrudOp{Owner: op.Owner, Phase: op.Phase})...)
		setErr(err)
		if err == nil {
			res.Obj = writeBack(r)
			sd.held[key] = r
		}
	case "destroy":
		setErr(sd.st.Destroy(ctx, ptr, state.WithDestroyOwner(op.Owner)))
	case "teardown":
		ready, err := sd.st.Teardown(ctx, ptr, state.WithTeardownOwner(op.Owner))
		setErr(err)
		res.Ready = ready
	case "tad":
		tctx, cancel := context.WithTimeout(ctx, 5*time.Second)
		setErr(sd.st.TeardownAndDestroy(tctx, ptr, state.WithTeardownAndDestroyOwner(op.Owner)))
		cancel()
	case "addfin":
		setErr(sd.st.AddFinalizer(ctx, ptr, op.Fin))
	case "remfin":
		setErr(sd.st.RemoveFinalizer(ctx, ptr, op.Fin))
	case "uwc", "modify":
		n := 0
		f := mutator(RMWCall{Mut: op.Mut, Val: op.Val}, "c", &n)
		opts := append([]state.UpdateOption{state.WithUpdateOwner(op.Owner)}, phaseOpts(op.Phase)...)
		var r resource.Resource
		var err error
		if op.Kind == "uwc" {
			r, err = sd.st.UpdateWithConflicts(ctx, ptr, f, opts...)
		} else {
			r, err = sd.st.ModifyWithResult(ctx, NewRes("ns1", op.Type, op.ID, ""), f, opts...)
		}
		setErr(err)
		if err == nil && r != nil {
			s := SnapOf(r)
			s.Created = 0 // creation time is not written back over the wire
			res.Snap = &s
		}
	case "watch":
		spec := WatchSpec{Kind: op.WKind, Type: op.Type, ID: op.ID, Bootstrap: op.Boot, BootstrapBookmark: op.BootBM, Tail: op.Tail, ChanCap: 0}
		if op.WKind != "single" {
			spec.ID = ""
		}
		rec := &WatchRec{Spec: spec, Name: fmt.Sprintf("%s-w%d", sd.name, len(sd.watches))}
		var ko []state.WatchKindOption
		var so []state.WatchOption
		for _, q := range selectorOpts(op.Sel) {
			ko = append(ko, state.WatchWithLabelQuery(q...))
		}
		if op.IDRe != "" {
			ko = append(ko, state.WatchWithIDQuery(resource.IDRegexpMatch(regexp.MustCompile(op.IDRe))))
		}
		if op.FromBM > 0 {
			bms := bookmarks()
			if len(bms) > 0 {
				bm := bms[(op.FromBM-1)%len(bms)]
				ko = append(ko, state.WithKindStartFromBookmark(bm))
				so = append(so, state.WithStartFromBookmark(bm))
			}
		}
		if op.SkipUnm {
			ko = append(ko, state.WithWatchKindUnmarshalOptions(state.WithSkipProtobufUnmarshal()))
			so = append(so, state.WithWatchUnmarshalOptions(state.WithSkipProtobufUnmarshal()))
		}
		sd.watches = append(sd.watches, rec)
		established := make(chan struct{})
		wenv := *env
		wenv.st = sd.st
		simrt.Go("watch:"+rec.Name, func() {
			runWatcherNotify(ctx, &wenv, rec, ko, so, established)
		})
		simrt.ChanRecv("watch.established", (<-chan struct{})(established))
		setErr(rec.Err)
	case "sleep":
		simrt.Sleep(time.Duration(op.Ms) * time.Millisecond)
	}
	return res
}

func (r opResult) String() string {
	s := r.Err
	if r.Snap != nil {
		s += fmt.Sprintf(" snap=%+v", *r.Snap)
	}
	if r.Obj != nil {
		s += fmt.Sprintf(" writeback=%+v", *r.Obj)
	}
	if r.List != "" {
		s += " list=" + r.List
	}
	if r.Ready {
		s += " ready"
	}
	if r.ErrMsg != "" {
		s += " (" + r.ErrMsg + ")"
	}
	return s
}

func sameResult(a, b opResult) string {
	// commit times of the two worlds may differ (a blocking call on one side lets virtual time pass): the update time
	// written back is checked against the remote store itself, not across worlds
	zt := func(s *Snap) *Snap {
		if s == nil {
			return nil
		}
		c := *s
		c.Created, c.Updated = 0, 0
		return &c
	}
	a.Snap, b.Snap, a.Obj, b.Obj = zt(a.Snap), zt(b.Snap), zt(a.Obj), zt(b.Obj)
	a.List, b.List = stripTimes(a.List), stripTimes(b.List)
	if a.Err != b.Err {
		return fmt.Sprintf("error class %q vs %q", a.Err, b.Err)
	}
	if (a.Snap == nil) != (b.Snap == nil) || (a.Snap != nil && *a.Snap != *b.Snap) {
		return "returned resource differs"
	}
	if (a.Obj == nil) != (b.Obj == nil) || (a.Obj != nil && *a.Obj != *b.Obj) {
		return "metadata written back into the caller's object differs"
	}
	if a.List != b.List {
		return "list result differs"
	}
	if a.Ready != b.Ready {
		return "ready flag differs"
	}
	return ""
}

var rawKinds = []string{"get-empty", "get-nil-options", "destroy-nil-options", "teardown-nil-options", "tad-nil-options",
	"create-nil-resource", "create-nil-metadata", "create-nil-spec", "create-bad-version", "create-bad-phase", "create-unknown-type", "create-nil-options", "create-bad-times",
	"update-nil-resource", "update-nil-options", "update-bad-phase-option",
	"list-term-no-value-equal", "list-term-no-value-lt", "list-term-no-value-ltnum", "list-term-no-value-in", "list-term-unknown-op", "list-bad-regexp", "list-nil-options", "list-nil-term", "list-nil-query",
	"watch-id-bootstrap", "watch-negative-tail", "watch-garbage-bookmark", "watch-tail-and-bookmark", "watch-term-no-value", "watch-api0", "watch-id-labelquery", "watch-nil-options", "watch-bad-regexp", "watch-huge-tail"}

func validWireResource(id, version, phase string) *v1alpha1.Resource {
	return &v1alpha1.Resource{
		Metadata: &v1alpha1.Metadata{Namespace: "ns1", Type: TypeA, Id: id, Version: version, Phase: phase, Created: timestamppb.Now(), Updated: timestamppb.Now()},
		Spec:     &v1alpha1.Spec{ProtoSpec: []byte(`{"val":"raw"}`)},
	}
}

// fireRaw sends one crafted request; every outcome but a server crash is acceptable.
func fireRaw(ctx context.Context, tr *simTransport, rq RawReq, out *Outcome) {
	ctx, cancel := context.WithTimeout(ctx, 3*time.Second)
	defer cancel()
	id := fmt.Sprintf("raw%d", rq.N)
	term := func(op v1alpha1.LabelTerm_Operation, vals ...string) []*v1alpha1.LabelQuery {
		return []*v1alpha1.LabelQuery{{Terms: []*v1alpha1.LabelTerm{{Key: "k", Op: op, Value: vals, Invert: rq.N%2 == 0}}}}
	}
	drainList := func(req *v1alpha1.ListRequest) {
		cli, err := tr.List(ctx, req)
		if err != nil {
			return
		}
		for {
			if _, err := cli.Recv(); err != nil {
				return
			}
		}
	}
	tryWatch := func(req *v1alpha1.WatchRequest) {
		cli, err := tr.Watch(ctx, req)
		if err != nil {
			return
		}
		for i := 0; i < 3; i++ {
			if _, err := cli.Recv(); err != nil {
				return
			}
		}
	}
	sid := "r0"
	switch rq.Kind {
	case "get-empty":
		_, _ = tr.Get(ctx, &v1alpha1.GetRequest{})
	case "get-nil-options":
		_, _ = tr.Get(ctx, &v1alpha1.GetRequest{Namespace: "ns1", Type: TypeA, Id: strings.Repeat("x", 1+rq.N*50)})
	case "destroy-nil-options":
		_, _ = tr.Destroy(ctx, &v1alpha1.DestroyRequest{Namespace: "ns1", Type: TypeA, Id: id})
	case "teardown-nil-options":
		_, _ = tr.Teardown(ctx, &v1alpha1.TeardownRequest{Namespace: "ns1", Type: TypeA, Id: id})
	case "tad-nil-options":
		_, _ = tr.TeardownAndDestroy(ctx, &v1alpha1.TeardownAndDestroyRequest{Namespace: "ns1", Type: TypeA, Id: id})
	case "create-nil-resource":
		_, _ = tr.Create(ctx, &v1alpha1.CreateRequest{Options: &v1alpha1.CreateOptions{}})
	case "create-nil-metadata":
		_, _ = tr.Create(ctx, &v1alpha1.CreateRequest{Resource: &v1alpha1.Resource{Spec: &v1alpha1.Spec{}}, Options: &v1alpha1.CreateOptions{}})
	case "create-nil-spec":
		r := validWireResource(id, "undefined", "running")
		r.Spec = nil
		_, _ = tr.Create(ctx, &v1alpha1.CreateRequest{Resource: r, Options: &v1alpha1.CreateOptions{}})
	case "create-bad-version":
		_, _ = tr.Create(ctx, &v1alpha1.CreateRequest{Resource: validWireResource(id, []string{"", "-1", "abc", "99999999999999999999999"}[rq.N%4], "running"), Options: &v1alpha1.CreateOptions{}})
	case "create-bad-phase":
		_, _ = tr.Create(ctx, &v1alpha1.CreateRequest{Resource: validWireResource(id, "undefined", []string{"", "bogus", "Running"}[rq.N%3]), Options: &v1alpha1.CreateOptions{}})
	case "create-unknown-type":
		r := validWireResource(id, "undefined", "running")
		r.Metadata.Type = "Unknowns.sim.cosi.dev"
		_, _ = tr.Create(ctx, &v1alpha1.CreateRequest{Resource: r, Options: &v1alpha1.CreateOptions{}})
	case "create-nil-options":
		_, _ = tr.Create(ctx, &v1alpha1.CreateRequest{Resource: validWireResource(id, "undefined", "running")})
	case "create-bad-times":
		r := validWireResource(id, "undefined", "running")
		r.Metadata.Created, r.Metadata.Updated = nil, &timestamppb.Timestamp{Seconds: -1 << 62, Nanos: -5}
		_, _ = tr.Create(ctx, &v1alpha1.CreateRequest{Resource: r, Options: &v1alpha1.CreateOptions{}})
	case "update-nil-resource":
		_, _ = tr.Update(ctx, &v1alpha1.UpdateRequest{Options: &v1alpha1.UpdateOptions{}})
	case "update-nil-options":
		_, _ = tr.Update(ctx, &v1alpha1.UpdateRequest{NewResource: validWireResource(sid, "1", "running")})
	case "update-bad-phase-option":
		ph := "bogus"
		_, _ = tr.Update(ctx, &v1alpha1.UpdateRequest{NewResource: validWireResource(sid, "1", "running"), Options: &v1alpha1.UpdateOptions{ExpectedPhase: &ph}})
	case "list-term-no-value-equal":
		drainList(&v1alpha1.ListRequest{Namespace: "ns1", Type: TypeA, Options: &v1alpha1.ListOptions{LabelQuery: term(v1alpha1.LabelTerm_EQUAL)}})
	case "list-term-no-value-lt":
		drainList(&v1alpha1.ListRequest{Namespace: "ns1", Type: TypeA, Options: &v1alpha1.ListOptions{LabelQuery: term([]v1alpha1.LabelTerm_Operation{v1alpha1.LabelTerm_LT, v1alpha1.LabelTerm_LTE}[rq.N%2])}})
	case "list-term-no-value-ltnum":
		drainList(&v1alpha1.ListRequest{Namespace: "ns1", Type: TypeA, Options: &v1alpha1.ListOptions{LabelQuery: term([]v1alpha1.LabelTerm_Operation{v1alpha1.LabelTerm_LT_NUMERIC, v1alpha1.LabelTerm_LTE_NUMERIC}[rq.N%2])}})
	case "list-term-no-value-in":
		drainList(&v1alpha1.ListRequest{Namespace: "ns1", Type: TypeA, Options: &v1alpha1.ListOptions{LabelQuery: term(v1alpha1.LabelTerm_IN)}})
	case "list-term-unknown-op":
		drainList(&v1alpha1.ListRequest{Namespace: "ns1", Type: TypeA, Options: &v1alpha1.ListOptions{LabelQuery: term(v1alpha1.LabelTerm_Operation(50+rq.N), "x")}})
	case "list-bad-regexp":
		drainList(&v1alpha1.ListRequest{Namespace: "ns1", Type: TypeA, Options: &v1alpha1.ListOptions{IdQuery: &v1alpha1.IDQuery{Regexp: []string{"(", "[a-", "*", "(?P<x"}[rq.N%4]}}})
	case "list-nil-options":
		drainList(&v1alpha1.ListRequest{Namespace: "ns1", Type: TypeA})
	case "list-nil-term":
		drainList(&v1alpha1.ListRequest{Namespace: "ns1", Type: TypeA, Options: &v1alpha1.ListOptions{LabelQuery: []*v1alpha1.LabelQuery{{Terms: []*v1alpha1.LabelTerm{nil}}}}})
	case "list-nil-query":
		drainList(&v1alpha1.ListRequest{Namespace: "ns1", Type: TypeA, Options: &v1alpha1.ListOptions{LabelQuery: []*v1alpha1.LabelQuery{nil}}})
	case "watch-id-bootstrap":
		tryWatch(&v1alpha1.WatchRequest{Namespace: "ns1", Type: TypeA, Id: &sid, Options: &v1alpha1.WatchOptions{BootstrapContents: true}, ApiVersion: 1})
	case "watch-negative-tail":
		tryWatch(&v1alpha1.WatchRequest{Namespace: "ns1", Type: TypeA, Options: &v1alpha1.WatchOptions{TailEvents: -int32(1 + rq.N)}, ApiVersion: 1})
	case "watch-garbage-bookmark":
		b := make([]byte, rq.N%40)
		for i := range b {
			b[i] = byte(rq.N + i*7)
		}
		var idp *string
		if rq.N%2 == 0 {
			idp = &sid
		}
		tryWatch(&v1alpha1.WatchRequest{Namespace: "ns1", Type: TypeA, Id: idp, Options: &v1alpha1.WatchOptions{StartFromBookmark: b}, ApiVersion: 1})
	case "watch-tail-and-bookmark":
		tryWatch(&v1alpha1.WatchRequest{Namespace: "ns1", Type: TypeA, Options: &v1alpha1.WatchOptions{TailEvents: 3, StartFromBookmark: []byte("0123456789abcdef"), BootstrapContents: rq.N%2 == 0}, ApiVersion: 1})
	case "watch-term-no-value":
		tryWatch(&v1alpha1.WatchRequest{Namespace: "ns1", Type: TypeA, Options: &v1alpha1.WatchOptions{LabelQuery: term([]v1alpha1.LabelTerm_Operation{v1alpha1.LabelTerm_EQUAL, v1alpha1.LabelTerm_LT, v1alpha1.LabelTerm_LTE_NUMERIC}[rq.N%3])}, ApiVersion: 1})
	case "watch-api0":
		tryWatch(&v1alpha1.WatchRequest{Namespace: "ns1", Type: TypeA, Options: &v1alpha1.WatchOptions{BootstrapContents: true, Aggregated: rq.N%2 == 0}})
	case "watch-id-labelquery":
		tryWatch(&v1alpha1.WatchRequest{Namespace: "ns1", Type: TypeA, Id: &sid, Options: &v1alpha1.WatchOptions{LabelQuery: term(v1alpha1.LabelTerm_EXISTS), Aggregated: true}, ApiVersion: 1})
	case "watch-nil-options":
		var idp *string
		if rq.N%2 == 0 {
			idp = &sid
		}
		tryWatch(&v1alpha1.WatchRequest{Namespace: "ns1", Type: TypeA, Id: idp})
	case "watch-bad-regexp":
		tryWatch(&v1alpha1.WatchRequest{Namespace: "ns1", Type: TypeA, Options: &v1alpha1.WatchOptions{IdQuery: &v1alpha1.IDQuery{Regexp: "("}}, ApiVersion: 1})
	case "watch-huge-tail":
		tryWatch(&v1alpha1.WatchRequest{Namespace: "ns1", Type: TypeA, Options: &v1alpha1.WatchOptions{TailEvents: 1 << 30}, ApiVersion: 1})
	}
	out.probe("raw:" + rq.Kind)
	out.fault("malformed-request")
}

func (c11) Run(t *testing.T, cs Case, trace bool) *Outcome {
	c := cs.(*C11Case)
	out := &Outcome{}
	var ev int64
	st, panics, berr := simrt.Run(t, simrt.Config{Seed: c.Seed, Policy: c.Policy, Trace: trace}, func(s *simrt.Sim) {
		wd := NewStoreWorld("inmem", c.Hist)
		wr := NewStoreWorld("inmem", c.Hist)
		faults := &TransportFaults{OldServer: c.OldServer, StreamBuf: 4}
		rst, tr := remoteState(wr.Core, faults, out)
		D := &side{name: "direct", st: wd.St, core: wd.Core, held: map[string]resource.Resource{}}
		R := &side{name: "remote", st: rst, core: wr.Core, held: map[string]resource.Resource{}}
		ctx, cancel := context.WithCancel(context.Background())
		defer cancel()
		env := &watchEnv{prop: "C11", ev: &ev, out: out, commits: func(string, string) int { return 0 }}
		bmOf := func(sd *side) func() [][]byte {
			return func() [][]byte {
				var out [][]byte
				for _, w := range sd.watches {
					if w.Spec.Kind != "kind" {
						continue
					}
					for _, e := range w.Events {
						if len(e.Bookmark) > 0 {
							out = append(out, e.Bookmark)
						}
					}
					break
				}
				return out
			}
		}
		var notes []string
		s.Spawn("driver", func() {
			for i, op := range c.Ops {
				if op.Kind == "watch" && op.FromBM > 0 {
					simrt.Sleep(time.Second) // let the earlier watchers of both worlds catch up, so both pick the same bookmark
				}
				rd := D.apply(ctx, op, env, bmOf(D))
				rr := R.apply(ctx, op, env, bmOf(R))
				if trace {
					notes = append(notes, fmt.Sprintf("op %d %+v\n      direct: %s\n      remote: %s", i, op, rd, rr))
				}
				if rd.Err == "ok" && (op.Kind == "create" || op.Kind == "update") {
					out.probe("write-ok")
				}
				if rd.Err != "ok" {
					out.probe("err:" + rd.Err)
				}
				if diff := sameResult(rd, rr); diff != "" {
					sig := "divergence:" + op.Kind + ":" + rd.Err + "/" + rr.Err
					out.violate("C11/divergence", sig, "operation %d %+v behaves differently through the gRPC leg: %s\n  direct: %s\n  remote: %s", i, op, diff, rd, rr)
					return
				}
				// the update time written back must be the stored one
				if rr.Obj != nil && (op.Kind == "create" || op.Kind == "update") {
					if stored, err := wr.Core.Get(ctx, resource.NewMetadata("ns1", op.Type, op.ID, resource.VersionUndefined)); err == nil {
						if sn := SnapOf(stored); sn.Updated != rr.Obj.Updated || sn.Version != rr.Obj.Version {
							out.violate("C11/write-back", "write-back", "operation %d %+v: the remote caller's object got version %s / update time %d written back, the store holds version %s / %d", i, op, rr.Obj.Version, rr.Obj.Updated, sn.Version, sn.Updated)
							return
						}
					}
				}
			}
		})
		if r := s.Settle(800000); r != simrt.Quiescent {
			out.HarnessErr = fmt.Sprintf("C11 run did not become quiescent: %v live=%v", r, s.Live())
			return
		}
		if ps := s.Panics(); len(ps) > 0 {
			out.violate("C11/panic", "panic:"+firstLine(ps[0].Value), "task %s panicked: %s\n%s", ps[0].Task, ps[0].Value, ps[0].Stack)
			return
		}
		tr.checkServerAlive("C11", out)
		// watch event sequences
		if out.Viol == nil {
			for i := range D.watches {
				if i >= len(R.watches) {
					break
				}
				wd0, wr0 := D.watches[i], R.watches[i]
				if (wd0.Err == nil) != (wr0.Err == nil) {
					continue // already compared as the op result
				}
				if len(wd0.Events) != len(wr0.Events) {
					out.violate("C11/watch-divergence", "watch-length:"+wd0.Spec.Kind, "watch %d (%+v): %d events directly, %d through the gRPC leg\n  direct: %s\n  remote: %s", i, wd0.Spec, len(wd0.Events), len(wr0.Events), renderEvents(wd0.Events), renderEvents(wr0.Events))
					break
				}
				for j := range wd0.Events {
					a, b := wd0.Events[j], wr0.Events[j]
					a.AtEv, b.AtEv, a.Batch, b.Batch, a.AtCommit, b.AtCommit = 0, 0, 0, 0, 0, 0
					a.Old.Created, a.Old.Updated, b.Old.Created, b.Old.Updated = 0, 0, 0, 0
					if a.Type != b.Type || a.HasOld != b.HasOld || (a.HasOld && a.Old != b.Old) || (a.Type != "Errored" && !sameEventSnap(a, b)) || (len(a.Bookmark) > 0) != (len(b.Bookmark) > 0) {
						out.violate("C11/watch-divergence", "watch-event:"+wd0.Spec.Kind, "watch %d (%+v): event %d differs: direct %s, remote %s", i, wd0.Spec, j, a.String(), b.String())
						break
					}
				}
				if len(wd0.Events) > 0 {
					out.probe("watch-compared")
				}
			}
		}
		if c.OldServer && (tr.Calls["Teardown"] > 1 || tr.Calls["TeardownAndDestroy"] > 1) {
			out.violate("C11/sticky-fallback", "sticky-fallback", "the client kept trying the Teardown RPCs after the server answered Unimplemented: Teardown %d, TeardownAndDestroy %d attempts", tr.Calls["Teardown"], tr.Calls["TeardownAndDestroy"])
		}
		// server totality: crafted requests
		if out.Viol == nil && len(c.Raw) > 0 {
			s.Spawn("raw", func() {
				for _, rq := range c.Raw {
					fireRaw(ctx, tr, rq, out)
					if len(tr.ServerPanics) > 0 {
						out.violate("C11/server-crash", "server-crash:"+rq.Kind, "crafted request %q crashed the gRPC server process (grpc does not recover handler panics): %s", rq.Kind, tr.ServerPanics[0])
						return
					}
				}
			})
			if r := s.Settle(400000); r != simrt.Quiescent {
				out.HarnessErr = fmt.Sprintf("C11 raw phase did not become quiescent: %v live=%v", r, s.Live())
				return
			}
			tr.checkServerAlive("C11", out)
		}
		if out.Viol == nil && c.Overrun != nil {
			// stalled remote subscriber on a tiny history
			wo := NewStoreWorld("inmem", HistCfg{Initial: 2, Max: 2})
			ad, tro := remoteCore(wo.Core, &TransportFaults{StreamBuf: 0}, out)
			rec := &WatchRec{Spec: *c.Overrun, Name: "overrun-watcher"}
			oenv := &watchEnv{prop: "C11", st: ad, ev: &ev, out: out, commits: func(string, string) int { return 0 }}
			s.Spawn("overrun-watcher", func() { runWatcher(ctx, oenv, rec, nil, nil) })
			s.Spawn("overrun-writer", func() {
				simrt.Sleep(time.Second)
				for i := 0; i < 12; i++ {
					id := "r0"
					if i%3 == 2 {
						id = "r1"
					}
					r := NewRes("ns1", TypeA, id, fmt.Sprintf("o%d", i))
					if err := wo.St.Create(ctx, r); err != nil {
						_, _ = wo.St.UpdateWithConflicts(ctx, r.Metadata(), func(x resource.Resource) error {
							SpecOf(x).Val = fmt.Sprintf("o%d", i)
							return nil
						})
					}
				}
			})
			if r := s.Settle(400000); r != simrt.Quiescent {
				out.HarnessErr = fmt.Sprintf("C11 overrun phase did not become quiescent: %v live=%v", r, s.Live())
				return
			}
			tro.checkServerAlive("C11", out)
			errored := len(rec.Events) > 0 && rec.Events[len(rec.Events)-1].Type == "Errored"
			if out.Viol == nil && rec.Err == nil && !errored {
				out.violate("C11/errored-lost", "errored-lost:"+rec.Spec.Kind, "a remote subscriber that overran the server's history (2 events retained, 12 written while it was stalled) did not receive the terminal Errored event a direct subscriber gets\nevents: %s", renderEvents(rec.Events))
			}
			out.probe("overrun-scenario")
			out.fault("history-overrun-scenario")
		}
		out.Nontrivial = out.Probes["write-ok"] > 0 && out.Probes["watch-compared"] > 0
		for k := range out.Probes {
			if strings.HasPrefix(k, "err:") {
				out.Nontrivial = out.Nontrivial && true
			}
		}
		if trace {
			out.Trace = s.Trace()
			out.Notes = notes
		}
		cancel()
		s.Settle(400000)
	})
	out.finish(st, panics, berr, true)
	return out
}

var timesRe = regexp.MustCompile(`created=-?[0-9]+ updated=-?[0-9]+`)

func stripTimes(s string) string { return timesRe.ReplaceAllString(s, "") }

func sameEventSnap(a, b EvRec) bool {
	if a.HasRes != b.HasRes {
		return false
	}
	x, y := a.Snap, b.Snap
	x.Created, x.Updated, y.Created, y.Updated = 0, 0, 0, 0
	// a tombstone travels as a resource with undefined version and empty spec
	if x.Val == "<tombstone>" || y.Val == "<tombstone>" {
		x.Val, y.Val = "", ""
	}
	return x == y
}
