package worlds

import (
	"context"
	"encoding/json"
	"fmt"
	"strings"
	"testing"

	"github.com/cosi-project/runtime/pkg/controller/runtime/zzverif/simrt"
	"github.com/cosi-project/runtime/pkg/resource"
	"github.com/cosi-project/runtime/pkg/resource/kvutils"
	"github.com/cosi-project/runtime/pkg/state"
)

// ---------------------------------------------------------------------------
// C19 — caller isolation: objects passed to / returned by the state never alias the store (DESIGN §7 C19)

// IsoOp is one client operation in the isolation world.
type IsoOp struct {
	Kind string `json:"kind"` // create update noop addfin remfin modify get list cget clist rget rlist scribble mdcopy mdscribble
	ID   string `json:"id,omitempty"`
	Val  string `json:"val,omitempty"`
	Fin  string `json:"fin,omitempty"`
	Sel  int    `json:"sel,omitempty"` // clist/list/rlist: 0 none, 1 label selector, 2 id selector
	Obj  int    `json:"obj,omitempty"` // scribble: index into the client's bag (mod size)
	Mut  string `json:"mut,omitempty"` // scribble mutation
}

// C19Case is a C19 run.
type C19Case struct {
	Common
	Pre     []IsoOp   `json:"pre"`
	Clients [][]IsoOp `json:"clients"`
}

type c19 struct{}

func init() { register(c19{}) }

func (c19) ID() string { return "C19" }

func (c19) Rule() string {
	return "case = store with commit tap + controller runtime cache + simulated gRPC leg; resources carrying 3 unsorted finalizers, labels and annotations; 2-3 client tasks issuing Create / Update / no-op UpdateWithConflicts / AddFinalizer(existing) / Modify / Get / List at the three handles (direct, cached incl. filtered lists, remote) and keeping EVERY object they passed in or got back (plus Metadata.Copy() copies), interleaved with 'scribbles' - later mutations of any held object through the public API (labels Set/Delete/Do, annotations, finalizers Add/Remove/Set, phase, version, owner, spec value and token slices in place); after every operation the store must equal the replay of the commit log, every other held object must equal what it was when obtained, and events held by a watcher must be unchanged; non-trivial = >=1 scribble on an object that shares storage-era lineage with a stored resource and >=2 handles used; distinct = distinct (operation sequence, schedule) hash"
}

func (c19) Components() (real, stub []string) {
	return []string{"pkg/resource (metadata copy-on-write: internal/kv, finalizer.go, metadata.go), pkg/resource/typed (DeepCopy)", "pkg/state/impl/inmem (DeepCopy at the API boundary)", "pkg/controller/runtime/internal/cache (copies on cached reads)", "pkg/state/protobuf client/server", "pkg/state (wrap helpers)"},
		[]string{"gRPC/HTTP2 stack (in-process transport)", "Go scheduler choice (simrt)", "OS clock (synctest)"}
}

func (c19) Decode(b []byte) (Case, error) {
	var c C19Case
	err := json.Unmarshal(b, &c)
	return &c, err
}

var scribbleMuts = []string{"label-new", "label-over", "label-del", "label-do", "label-do-absent-first", "label-do-get-first", "annot-do-absent-first", "annot-new", "annot-over", "annot-del", "fin-add", "fin-rem-first", "fin-rem-last", "fin-set", "phase", "version", "owner", "val", "token-append", "token-inplace"}

func genIsoOps(r *simrt.RNG, client, n, nids int, uniq *int) []IsoOp {
	var ops []IsoOp
	for i := 0; i < n; i++ {
		*uniq++
		op := IsoOp{ID: fmt.Sprintf("r%d", r.Intn(nids)), Val: fmt.Sprintf("i%d_%d", client, *uniq)}
		switch r.Pick([]int{2, 4, 2, 2, 1, 2, 3, 2, 2, 3, 1, 2, 10, 2, 2, 2}) {
		case 0:
			op.Kind = "create"
		case 1:
			op.Kind = "update"
			op.Mut = []string{"val", "label-over", "label-del-all", "fin-add", "annot-new"}[r.Intn(5)]
		case 2:
			op.Kind = "noop"
		case 3:
			op.Kind = "addfin"
			op.Fin = []string{"fz", "fa", "fm", "fnew"}[r.Intn(4)]
		case 4:
			op.Kind = "remfin"
			op.Fin = []string{"fz", "fa", "fm", "missing"}[r.Intn(4)]
		case 5:
			op.Kind = "modify"
		case 6:
			op.Kind = "get"
		case 7:
			op.Kind = "list"
			op.Sel = r.Intn(3)
		case 8:
			op.Kind = "cget"
		case 9:
			op.Kind = "clist"
			op.Sel = r.Intn(3)
		case 10:
			op.Kind = "rget"
		case 11:
			op.Kind = "rlist"
			op.Sel = r.Intn(3)
		case 12:
			op.Kind = "scribble"
			op.Obj = r.Intn(64)
			op.Mut = scribbleMuts[r.Intn(len(scribbleMuts))]
		case 13:
			op.Kind = "mdcopy"
			op.Obj = r.Intn(64)
		case 14:
			op.Kind = "mdscribble"
			op.Obj = r.Intn(64)
			op.Mut = scribbleMuts[r.Intn(11)]
		case 15:
			op.Kind = "unlabel-all"
		}
		ops = append(ops, op)
	}
	return ops
}

func (c19) Gen(seed uint64, tier string) Case {
	r := simrt.NewRNG(seed)
	c := &C19Case{Common: Common{Prop: "C19", Seed: seed, Tier: tier}}
	nids := 1 + r.Intn(3)
	uniq := 0
	for i := 0; i < nids; i++ {
		if r.Bool(0.8) {
			uniq++
			c.Pre = append(c.Pre, IsoOp{Kind: "create", ID: fmt.Sprintf("r%d", i), Val: fmt.Sprintf("pre_%d", uniq)})
		}
	}
	maxOps := 12
	if tier == "thorough" {
		maxOps = 24
	}
	for i := 0; i < 2+r.Intn(2); i++ {
		c.Clients = append(c.Clients, genIsoOps(r, i, 3+r.Intn(maxOps), nids, &uniq))
	}
	c.Policy = genPolicy(r, []string{"client"})
	return c
}

func (c19) Shrink(cs Case) []Case {
	c := cs.(*C19Case)
	var out []Case
	if len(c.Clients) > 1 {
		for i := range c.Clients {
			n := cloneJSON(c)
			n.Clients = dropAt(n.Clients, i)
			out = append(out, n)
		}
	}
	for i := range c.Clients {
		for j := range c.Clients[i] {
			n := cloneJSON(c)
			n.Clients[i] = dropAt(n.Clients[i], j)
			out = append(out, n)
		}
	}
	for i := range c.Pre {
		n := cloneJSON(c)
		n.Pre = dropAt(n.Pre, i)
		out = append(out, n)
	}
	if c.Policy.Kind != "walk" || c.Policy.SwitchProb != 0.2 || c.Policy.PermuteMaps || c.Policy.StarvePrefix != "" || c.Policy.PreemptProb != 0 {
		n := cloneJSON(c)
		n.Policy = simrt.Policy{Kind: "walk", SwitchProb: 0.2}
		out = append(out, n)
	}
	return out
}

// held is an object a client still holds.
type held struct {
	res      resource.Resource  // nil for a bare metadata copy
	md       *resource.Metadata // metadata copy (mdcopy)
	expect   Snap
	origin   string
	inflight bool
}

func (h *held) snap() Snap {
	if h.res != nil {
		return SnapOf(h.res)
	}
	return snapOfMD(h.md)
}

func snapOfMD(md *resource.Metadata) Snap {
	r := NewRes(md.Namespace(), md.Type(), md.ID(), "")
	*r.Metadata() = *md
	s := SnapOf(r)
	s.Val, s.Tokens = "", ""
	return s
}

func newIsoResource(id, val string) resource.Resource {
	r := NewRes("ns1", TypeA, id, val)
	// deliberately unsorted finalizers, several labels and annotations
	for _, f := range []string{"fz", "fa", "fm"} {
		r.Metadata().Finalizers().Add(f)
	}
	r.Metadata().Labels().Set("k", "1")
	r.Metadata().Labels().Set("z", "9")
	r.Metadata().Annotations().Set("note", val)
	SpecOf(r).Tokens = []string{"t1", "t2"}
	return r
}

func scribble(md *resource.Metadata, sp *Spec, mut, val string) {
	switch mut {
	case "label-new":
		md.Labels().Set("s-"+val, val)
	case "label-over":
		md.Labels().Set("k", "scribbled-"+val)
	case "label-del":
		md.Labels().Delete("z")
	case "label-do":
		md.Labels().Do(func(tmp kvutils.TempKV) {
			tmp.Set("k", "do-"+val)
			tmp.Delete("z")
		})
	case "label-do-absent-first":
		md.Labels().Do(func(tmp kvutils.TempKV) {
			tmp.Delete("no-such-key-" + val) // an ineffective change first, then a real one
			tmp.Set("k", "do2-"+val)
		})
	case "label-do-get-first":
		md.Labels().Do(func(tmp kvutils.TempKV) {
			if v, ok := tmp.Get("k"); ok {
				tmp.Set("k", v) // same value: ineffective
			}
			tmp.Delete("k")
			tmp.Set("fresh-"+val, val)
		})
	case "annot-do-absent-first":
		md.Annotations().Do(func(tmp kvutils.TempKV) {
			tmp.Delete("no-such-key-" + val)
			tmp.Set("note", "do2-"+val)
		})
	case "annot-new":
		md.Annotations().Set("s-"+val, val)
	case "annot-over":
		md.Annotations().Set("note", "scribbled-"+val)
	case "annot-del":
		md.Annotations().Delete("note")
	case "fin-add":
		md.Finalizers().Add("s-" + val)
	case "fin-rem-first":
		if f := *md.Finalizers(); len(f) > 0 {
			md.Finalizers().Remove(f[0])
		}
	case "fin-rem-last":
		if f := *md.Finalizers(); len(f) > 0 {
			md.Finalizers().Remove(f[len(f)-1])
		}
	case "fin-set":
		md.Finalizers().Set(resource.Finalizers{"only-" + val})
	case "phase":
		if md.Phase() == resource.PhaseRunning {
			md.SetPhase(resource.PhaseTearingDown)
		} else {
			md.SetPhase(resource.PhaseRunning)
		}
	case "version":
		md.SetVersion(md.Version().Next())
	case "owner":
		_ = md.SetOwner("scribbler")
	case "val":
		if sp != nil {
			sp.Val = "scribbled-" + val
		}
	case "token-append":
		if sp != nil {
			sp.Tokens = append(sp.Tokens, "s-"+val)
		}
	case "token-inplace":
		if sp != nil && len(sp.Tokens) > 0 {
			sp.Tokens[0] = "scribbled-" + val
		}
	}
}

func isoSelector(sel int) []state.ListOption {
	switch sel {
	case 1:
		return []state.ListOption{state.WithLabelQuery(resource.LabelExists("k"))}
	case 2:
		return Selector{IDRe: "^r[0-9]$"}.listOpts()
	}
	return nil
}

func (c19) Run(t *testing.T, cs Case, trace bool) *Outcome {
	c := cs.(*C19Case)
	out := &Outcome{}
	st, panics, berr := simrt.Run(t, simrt.Config{Seed: c.Seed, Policy: c.Policy, Trace: trace}, func(s *simrt.Sim) {
		w, err := NewRuntimeWorld("inmem+tap", HistCfg{}, RuntimeOpts{Cached: []string{TypeA}}, out)
		if err != nil {
			out.HarnessErr = err.Error()
			return
		}
		ctx, cancel := context.WithCancel(context.Background())
		defer cancel()
		ad, tr := remoteCore(w.Core, &TransportFaults{StreamBuf: 4}, out)
		remote := state.WrapCore(ad)
		cached := w.RT.CachedState()
		w.Start(s, ctx)
		bags := make([][]*held, len(c.Clients)+1)
		var notes []string
		// a watcher keeps the events it received
		var ev int64
		wrec := &WatchRec{Spec: WatchSpec{Kind: "kind", Type: TypeA, Bootstrap: true}, Name: "watcher"}
		var heldEvents []state.Event
		wenv := &watchEnv{prop: "C19", st: w.Core, ev: &ev, out: out, commits: func(string, string) int { return 0 }}
		wenv.keep = func(e state.Event) { heldEvents = append(heldEvents, e) }
		s.Spawn("watcher", func() { runWatcher(ctx, wenv, wrec, nil, nil) })
		replay := func() map[string]Snap {
			m := map[string]Snap{}
			for _, cm := range w.Log {
				if cm.Type != TypeA {
					continue
				}
				if cm.Kind == "put" {
					m[cm.ID] = cm.Snap
				} else {
					delete(m, cm.ID)
				}
			}
			return m
		}
		// verify: the store equals the replay of the commit log; every held object is what it was
		verify := func(after string) bool {
			if out.Viol != nil {
				return false
			}
			// direct read of the stored objects without going through the collection lock is not possible from a
			// task (the lock may be held by a parked task): use the API
			n0 := len(w.Log)
			l, err := w.Core.List(ctx, resource.NewMetadata("ns1", TypeA, "", resource.VersionUndefined))
			if err != nil {
				out.HarnessErr = "list: " + err.Error()
				return false
			}
			ok := true
			// one atomic step: instrumented accessors contain preemption points
			simrt.Atomic(func() {
				if len(w.Log) == n0 { // nothing was committed while the List was in flight
					got := map[string]Snap{}
					for _, r := range l.Items {
						got[r.Metadata().ID()] = SnapOf(r)
					}
					want := replay()
					if !snapsEqual(got, want) {
						out.violate("C19/store-aliased", "store-changed-without-commit", "after %s the store holds %s but the committed writes add up to %s: a caller-held object aliases the store\nhistory:\n  %s", after, renderObsFull(got), renderObsFull(want), strings.Join(tailStr(notes, 25), "\n  "))
						ok = false
						return
					}
				}
				for ci, bag := range bags {
					for oi, h := range bag {
						if h.inflight {
							continue
						}
						if cur := h.snap(); cur != h.expect {
							out.violate("C19/holder-aliased", "held-object-changed:"+h.origin, "after %s the object #%d held by client %d (obtained by %s) changed although its holder did not touch it:\n  was %+v\n  now %+v\nhistory:\n  %s", after, oi, ci, h.origin, h.expect, cur, strings.Join(tailStr(notes, 25), "\n  "))
							ok = false
							return
						}
					}
				}
			})
			return ok
		}
		keep := func(ci int, r resource.Resource, origin string) *held {
			h := &held{res: r, origin: origin}
			simrt.Atomic(func() { h.expect = SnapOf(r) })
			bags[ci] = append(bags[ci], h)
			return h
		}
		settled := func(h *held) {
			simrt.Atomic(func() { h.expect = h.snap(); h.inflight = false })
		}
		do := func(ci int, op IsoOp) {
			ptr := resource.NewMetadata("ns1", TypeA, op.ID, resource.VersionUndefined)
			desc := fmt.Sprintf("client%d %s id=%s obj=%d mut=%s sel=%d", ci, op.Kind, op.ID, op.Obj, op.Mut, op.Sel)
			notes = append(notes, desc)
			listAt := func(st0 state.CoreState, origin string) {
				l, err := st0.List(ctx, ptr, isoSelector(op.Sel)...)
				if err == nil {
					for _, r := range l.Items {
						keep(ci, r, origin)
					}
				}
			}
			switch op.Kind {
			case "create":
				r := newIsoResource(op.ID, op.Val)
				h := keep(ci, r, "passed-to-Create")
				h.inflight = true
				_ = w.St.Create(ctx, r)
				settled(h)
			case "update", "unlabel-all":
				r, err := w.St.Get(ctx, ptr)
				if err != nil {
					return
				}
				switch {
				case op.Kind == "unlabel-all":
					for _, k := range r.Metadata().Labels().Keys() {
						r.Metadata().Labels().Delete(k)
					}
				case op.Mut == "label-del-all":
					r.Metadata().Labels().Delete("k")
					r.Metadata().Labels().Delete("z")
				default:
					scribble(r.Metadata(), SpecOf(r), op.Mut, op.Val)
				}
				h := keep(ci, r, "passed-to-Update")
				h.inflight = true
				_ = w.St.Update(ctx, r, state.WithExpectedPhaseAny())
				settled(h)
			case "noop":
				if r, err := w.St.UpdateWithConflicts(ctx, ptr, func(resource.Resource) error { return nil }, state.WithExpectedPhaseAny()); err == nil {
					keep(ci, r, "returned-by-UpdateWithConflicts")
				}
			case "addfin":
				_ = w.St.AddFinalizer(ctx, ptr, op.Fin)
			case "remfin":
				_ = w.St.RemoveFinalizer(ctx, ptr, op.Fin)
			case "modify":
				r := newIsoResource(op.ID, op.Val)
				h := keep(ci, r, "passed-to-Modify")
				h.inflight = true
				res, err := w.St.ModifyWithResult(ctx, r, func(x resource.Resource) error {
					SpecOf(x).Val = op.Val
					return nil
				}, state.WithExpectedPhaseAny())
				settled(h)
				if err == nil && res != nil && res != resource.Resource(r) {
					keep(ci, res, "returned-by-Modify")
				}
			case "get":
				if r, err := w.Core.Get(ctx, ptr); err == nil {
					keep(ci, r, "returned-by-Get")
				}
			case "list":
				listAt(w.Core, "returned-by-List")
			case "cget":
				if r, err := cached.Get(ctx, ptr); err == nil {
					keep(ci, r, "returned-by-cached-Get")
				}
			case "clist":
				listAt(cached, "returned-by-cached-List")
			case "rget":
				if r, err := remote.Get(ctx, ptr); err == nil {
					keep(ci, r, "returned-by-remote-Get")
				}
			case "rlist":
				listAt(remote, "returned-by-remote-List")
			case "scribble", "mdscribble":
				if len(bags[ci]) == 0 {
					return
				}
				h := bags[ci][op.Obj%len(bags[ci])]
				simrt.Atomic(func() {
					if h.res != nil {
						scribble(h.res.Metadata(), SpecOf(h.res), op.Mut, op.Val)
					} else {
						scribble(h.md, nil, op.Mut, op.Val)
					}
					h.expect = h.snap()
				})
				out.probe("scribble:" + h.origin)
				out.fault("caller-scribble:" + h.origin)
			case "mdcopy":
				if len(bags[ci]) == 0 {
					return
				}
				src := bags[ci][op.Obj%len(bags[ci])]
				var cp resource.Metadata
				if src.res != nil {
					cp = src.res.Metadata().Copy()
				} else {
					cp = src.md.Copy()
				}
				h := &held{md: &cp, origin: "Metadata.Copy"}
				simrt.Atomic(func() { h.expect = h.snap() })
				bags[ci] = append(bags[ci], h)
			}
			verify(desc)
		}
		s.Spawn("pre", func() {
			for _, op := range c.Pre {
				do(len(c.Clients), op)
			}
		})
		s.Settle(200000)
		for i, ops := range c.Clients {
			s.Spawn(fmt.Sprintf("client%d", i), func() {
				for _, op := range ops {
					simrt.Yield("client.op")
					if out.Viol != nil || out.HarnessErr != "" {
						return
					}
					do(i, op)
				}
			})
		}
		if r := s.Settle(1500000); r != simrt.Quiescent {
			out.HarnessErr = fmt.Sprintf("C19 run did not become quiescent: %v live=%v", r, s.Live())
			return
		}
		if ps := s.Panics(); len(ps) > 0 {
			out.violate("C19/panic", "panic:"+firstLine(ps[0].Value), "task %s panicked: %s\n%s", ps[0].Task, ps[0].Value, ps[0].Stack)
			return
		}
		tr.checkServerAlive("C19", out)
		if out.Viol != nil || out.HarnessErr != "" {
			return
		}
		// the watcher's held events are what they were when received
		k := 0
		for _, e := range wrec.Events {
			if e.Type != "Created" && e.Type != "Updated" && e.Type != "Destroyed" {
				continue
			}
			if k >= len(heldEvents) {
				break
			}
			he := heldEvents[k]
			k++
			if he.Resource != nil && !resource.IsTombstone(he.Resource) {
				if now := SnapOf(he.Resource); now != e.Snap {
					out.violate("C19/watcher-aliased", "event-changed", "the resource inside an event a watcher received (%s) changed afterwards:\n  was %+v\n  now %+v", e.String(), e.Snap, now)
					return
				}
			}
		}
		// cached and remote views at quiescence equal the store
		want := replay()
		var cm, rm map[string]Snap
		s.Spawn("final", func() {
			cm, _ = listSnap(ctx, cached)
			rm, _ = listSnap(ctx, remote)
		})
		s.Settle(200000)
		if !snapsEqual(cm, want) {
			out.violate("C19/cache-aliased", "cache-changed", "at quiescence the cached List returns %s, the committed writes add up to %s", renderObsFull(cm), renderObsFull(want))
			return
		}
		if !snapsEqual(rm, want) {
			out.violate("C19/store-aliased", "remote-view-differs", "at quiescence the remote List returns %s, the committed writes add up to %s", renderObsFull(rm), renderObsFull(want))
			return
		}
		handles := 0
		for _, p := range []string{"returned-by-Get", "returned-by-cached-Get", "returned-by-cached-List", "returned-by-remote-Get", "returned-by-remote-List", "returned-by-List"} {
			if out.Probes["scribble:"+p] > 0 {
				handles++
			}
		}
		out.Nontrivial = handles >= 1 && len(w.Log) > 1
		if trace {
			out.Trace = s.Trace()
			out.Notes = notes
		}
		cancel()
		s.Settle(500000)
	})
	out.finish(st, panics, berr, true)
	return out
}

func listSnap(ctx context.Context, st state.CoreState) (map[string]Snap, error) {
	l, err := st.List(ctx, resource.NewMetadata("ns1", TypeA, "", resource.VersionUndefined))
	if err != nil {
		return nil, err
	}
	m := map[string]Snap{}
	for _, r := range l.Items {
		m[r.Metadata().ID()] = SnapOf(r)
	}
	return m, nil
}

func renderObsFull(m map[string]Snap) string {
	var parts []string
	for _, k := range sortedKeys(m) {
		parts = append(parts, fmt.Sprintf("%+v", m[k]))
	}
	return "{" + strings.Join(parts, " ") + "}"
}

func tailStr(l []string, n int) []string {
	if len(l) > n {
		return l[len(l)-n:]
	}
	return l
}
