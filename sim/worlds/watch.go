package worlds

import (
	"context"
	"fmt"
	"strings"
	"time"

	"github.com/cosi-project/runtime/pkg/controller/runtime/zzverif/simrt"
	"github.com/cosi-project/runtime/pkg/resource"
	"github.com/cosi-project/runtime/pkg/state"
)

// WriteOp is one write of a writer client (C02, C12, C13, C14 workloads).
type WriteOp struct {
	Kind    string `json:"kind"` // create | update | destroy
	NS      string `json:"ns,omitempty"`
	Type    string `json:"type"`
	ID      string `json:"id"`
	Val     string `json:"val"`
	Mut     string `json:"mut,omitempty"` // update: as CrudOp.Mut
	SleepMs int    `json:"sleep_ms,omitempty"`
	// After: issue the write right after a named harness event ("read:<probe>": that controller finished reading an
	// input, "end:<probe>": its reconcile returned) instead of at a random time
	After string `json:"after,omitempty"`
}

// Ack is an acknowledged (successful) write.
type Ack struct {
	Kind        string
	Type, ID    string
	Version     string
	Val         string
	Invoke, Ret int64 // global event counter
}

// writer executes write ops, recording acks.
type writer struct {
	st   state.CoreState
	acks *[]Ack
	ev   *int64
	out  *Outcome
	trig *eventTriggers
}

func (w *writer) do(ctx context.Context, op WriteOp) {
	if op.SleepMs > 0 {
		simrt.Sleep(time.Duration(op.SleepMs) * time.Millisecond)
	}
	if op.After != "" && w.trig != nil {
		if !w.trig.wait(ctx, op.After) {
			return
		}
		w.out.fault("reactive-writer:" + strings.SplitN(op.After, ":", 2)[0])
	}
	simrt.Yield("writer.op")
	ns := op.NS
	if ns == "" {
		ns = "ns1"
	}
	*w.ev++
	inv := *w.ev
	switch op.Kind {
	case "create":
		r := NewRes(ns, op.Type, op.ID, op.Val)
		if strings.HasPrefix(op.Mut, "label:") || strings.HasPrefix(op.Mut, "unlabel:") || strings.HasPrefix(op.Mut, "labeldo:") {
			applyMut(r, CrudOp{Mut: op.Mut, Val: op.Val})
		}
		if err := w.st.Create(ctx, r); err == nil {
			*w.ev++
			*w.acks = append(*w.acks, Ack{Kind: "create", Type: op.Type, ID: op.ID, Version: r.Metadata().Version().String(), Val: op.Val, Invoke: inv, Ret: *w.ev})
			w.out.probe("write-ok")
		}
	case "update":
		r, err := w.st.Get(ctx, resource.NewMetadata(ns, op.Type, op.ID, resource.VersionUndefined))
		if err != nil {
			return
		}
		simrt.Yield("writer.between-get-update")
		applyMut(r, CrudOp{Mut: op.Mut, Val: op.Val})
		*w.ev++
		inv = *w.ev
		if err := w.st.Update(ctx, r, state.WithExpectedPhaseAny()); err == nil {
			*w.ev++
			*w.acks = append(*w.acks, Ack{Kind: "update", Type: op.Type, ID: op.ID, Version: r.Metadata().Version().String(), Val: op.Val, Invoke: inv, Ret: *w.ev})
			w.out.probe("write-ok")
		}
	case "destroy":
		if err := w.st.Destroy(ctx, resource.NewMetadata(ns, op.Type, op.ID, resource.VersionUndefined)); err == nil {
			*w.ev++
			*w.acks = append(*w.acks, Ack{Kind: "destroy", Type: op.Type, ID: op.ID, Invoke: inv, Ret: *w.ev})
			w.out.probe("write-ok")
		}
	}
}

func genWriteOps(r *simrt.RNG, client, n int, types []string, nids int, uniq *int, burst bool) []WriteOp {
	ops := make([]WriteOp, 0, n)
	for i := 0; i < n; i++ {
		*uniq++
		op := WriteOp{Type: types[r.Intn(len(types))], ID: fmt.Sprintf("r%d", r.Intn(nids)), Val: fmt.Sprintf("w%d#%d", client, *uniq)}
		switch r.Pick([]int{3, 6, 2}) {
		case 0:
			op.Kind = "create"
			if r.Bool(0.3) {
				op.Mut = fmt.Sprintf("label:k=%d", r.Intn(3))
			}
		case 1:
			op.Kind = "update"
			switch r.Pick([]int{6, 1, 1, 1, 1, 2}) {
			case 0:
				op.Mut = "val"
			case 1:
				op.Mut = "teardown"
			case 2:
				op.Mut = "running"
			case 3:
				op.Mut = "fin+f1"
			case 4:
				op.Mut = "fin-f1"
			case 5:
				op.Mut = fmt.Sprintf("label:k=%d", r.Intn(3))
			}
		case 2:
			op.Kind = "destroy"
		}
		if !burst && r.Bool(0.3) {
			op.SleepMs = 1 + r.Intn(3000)
		}
		ops = append(ops, op)
	}
	return ops
}

// WatchSpec describes one watcher and its consumer behaviour.
type WatchSpec struct {
	Kind              string `json:"kind"` // single | kind | agg
	NS                string `json:"ns,omitempty"`
	Type              string `json:"type"`
	ID                string `json:"id,omitempty"`
	Bootstrap         bool   `json:"bootstrap,omitempty"`
	BootstrapBookmark bool   `json:"bootstrap_bookmark,omitempty"`
	StartMs           int    `json:"start_ms,omitempty"`
	ChanCap           int    `json:"chan_cap,omitempty"`
	// consumer profile
	DelayMs     int `json:"delay_ms,omitempty"`     // per-event processing time
	StallAfter  int `json:"stall_after,omitempty"`  // after this many events ...
	StallMs     int `json:"stall_ms,omitempty"`     // ... stop consuming for this long
	CancelAfter int `json:"cancel_after,omitempty"` // cancel own context after this many events (0 = never)
	// selector (C14)
	Labels string `json:"labels,omitempty"`
	IDRe   string `json:"id_re,omitempty"`
	// resume / tail (C12)
	Tail int `json:"tail,omitempty"`
}

// EvRec is one consumed event.
type EvRec struct {
	Type     string
	Snap     Snap
	Old      Snap
	HasRes   bool
	HasOld   bool
	Bookmark []byte
	Err      string
	AtEv     int64 // global event counter when consumed
	AtCommit int   // commits of the watched collection seen by the tap when consumed
	Batch    int
}

func (e EvRec) String() string {
	switch e.Type {
	case "Errored":
		return "Errored(" + e.Err + ")"
	case "Bootstrapped", "Noop":
		return e.Type
	}
	s := fmt.Sprintf("%s(%s@%s val=%s phase=%s fins=[%s] labels=[%s])", e.Type, e.Snap.ID, e.Snap.Version, e.Snap.Val, e.Snap.Phase, e.Snap.Fins, e.Snap.Labels)
	if e.HasOld {
		s += fmt.Sprintf(" old=%s@%s", e.Old.ID, e.Old.Version)
	}
	return s
}

// WatchRec is everything one watcher observed.
type WatchRec struct {
	Spec                    WatchSpec
	Name                    string
	Err                     error // Watch* call error
	InvokeEv, RetEv         int64
	InvokeCommit, RetCommit int // collection commit counts at invoke/return
	Events                  []EvRec
	Cancelled               bool // cancelled itself
	Done                    bool // consumer loop ended
	MaxLag                  int  // max over commits of (commits - position consumed) while established
	consumedPos             int  // collection-log position up to which the consumer has consumed (exclusive)
	established             bool
	erroredAt               int
	onReturn                func() // called once the Watch* call has returned
}

// runWatcherNotify is runWatcher that closes ch as soon as the Watch* call has returned.
func runWatcherNotify(ctx context.Context, env *watchEnv, rec *WatchRec, extraKind []state.WatchKindOption, extraSingle []state.WatchOption, ch chan struct{}) {
	rec.onReturn = func() { close(ch) }
	runWatcher(ctx, env, rec, extraKind, extraSingle)
}

func recOf(ev state.Event, batch int) EvRec {
	r := EvRec{Type: ev.Type.String(), Bookmark: append([]byte(nil), ev.Bookmark...), Batch: batch}
	if ev.Error != nil {
		r.Err = ev.Error.Error()
	}
	if ev.Resource != nil && ev.Type != state.Errored {
		r.Snap = SnapOf(ev.Resource)
		r.HasRes = true
	}
	if ev.Old != nil {
		r.Old = SnapOf(ev.Old)
		r.HasOld = true
	}
	return r
}

// watchEnv is what a watcher task needs from its world.
type watchEnv struct {
	st      state.CoreState
	ev      *int64
	commits func(ns, typ string) int // commits seen by the tap for a collection (0 without tap)
	out     *Outcome
	prop    string
	keep    func(state.Event) // optional: the watcher keeps every received event object
}

func (s WatchSpec) ns() string {
	if s.NS == "" {
		return "ns1"
	}
	return s.NS
}

// runWatcher establishes the watch and consumes events per the profile. Runs inside a task.
func runWatcher(ctx context.Context, env *watchEnv, rec *WatchRec, extraKind []state.WatchKindOption, extraSingle []state.WatchOption) {
	spec := rec.Spec
	if spec.StartMs > 0 {
		simrt.Sleep(time.Duration(spec.StartMs) * time.Millisecond)
	}
	simrt.Yield("watcher.start")
	ctx, cancel := context.WithCancel(ctx)
	defer cancel()
	var single chan state.Event
	var agg chan []state.Event
	*env.ev++
	rec.InvokeEv = *env.ev
	rec.InvokeCommit = env.commits(spec.ns(), spec.Type)
	rec.consumedPos = -1
	kindOpts := append([]state.WatchKindOption{}, extraKind...)
	if spec.Bootstrap {
		kindOpts = append(kindOpts, state.WithBootstrapContents(true))
	}
	if spec.BootstrapBookmark {
		kindOpts = append(kindOpts, state.WithBootstrapBookmark(true))
	}
	if spec.Tail > 0 {
		kindOpts = append(kindOpts, state.WithKindTailEvents(spec.Tail))
	}
	md := resource.NewMetadata(spec.ns(), spec.Type, spec.ID, resource.VersionUndefined)
	switch spec.Kind {
	case "single":
		single = make(chan state.Event, spec.ChanCap)
		so := append([]state.WatchOption{}, extraSingle...)
		if spec.Tail > 0 {
			so = append(so, state.WithTailEvents(spec.Tail))
		}
		rec.Err = env.st.Watch(ctx, md, single, so...)
	case "kind":
		single = make(chan state.Event, spec.ChanCap)
		rec.Err = env.st.WatchKind(ctx, md, single, kindOpts...)
	case "agg":
		agg = make(chan []state.Event, spec.ChanCap)
		rec.Err = env.st.WatchKindAggregated(ctx, md, agg, kindOpts...)
	}
	*env.ev++
	rec.RetEv = *env.ev
	rec.RetCommit = env.commits(spec.ns(), spec.Type)
	if rec.onReturn != nil {
		rec.onReturn()
	}
	if rec.Err != nil {
		rec.Done = true
		return
	}
	rec.established = true
	env.out.probe("watch-established")
	n := 0
	batch := 0
	for {
		var evs []state.Event
		if agg != nil {
			c := simrt.Recv(agg)
			d := simrt.Recv(ctx.Done())
			if simrt.Select("watcher.recv", false, c, d) != 0 {
				rec.Done = true
				return
			}
			evs = c.V
		} else {
			c := simrt.Recv(single)
			d := simrt.Recv(ctx.Done())
			if simrt.Select("watcher.recv", false, c, d) != 0 {
				rec.Done = true
				return
			}
			evs = []state.Event{c.V}
		}
		batch++
		for _, e := range evs {
			*env.ev++
			if env.keep != nil && (e.Type == state.Created || e.Type == state.Updated || e.Type == state.Destroyed) {
				env.keep(e)
			}
			r := recOf(e, batch)
			r.AtEv = *env.ev
			r.AtCommit = env.commits(spec.ns(), spec.Type)
			rec.Events = append(rec.Events, r)
			n++
			if e.Type == state.Errored {
				env.out.probe("watch-errored")
				rec.erroredAt = len(rec.Events)
			}
		}
		if rec.erroredAt > 0 {
			// keep listening briefly: nothing may follow a terminal Errored
			simrt.Sleep(time.Second)
			extra := false
			var extraEvs []state.Event
			if agg != nil {
				c := simrt.Recv(agg)
				if simrt.Select("watcher.after-error", true, c) == 0 {
					extra = true
					extraEvs = c.V
				}
			} else {
				c := simrt.Recv(single)
				if simrt.Select("watcher.after-error", true, c) == 0 {
					extra = true
					extraEvs = []state.Event{c.V}
				}
			}
			onlyErrored := extra
			for _, e := range extraEvs {
				if e.Type != state.Errored {
					onlyErrored = false
				}
			}
			if onlyErrored {
				// a second Errored (the gRPC client reports the end of the stream after it has relayed the server's Errored
				// event) carries no data: the stream stays terminated
				env.out.probe("errored-repeated")
				extra = false
			}
			if extra {
				var descr []string
				for _, e := range extraEvs {
					descr = append(descr, recOf(e, 0).String())
				}
				env.out.violate(env.prop+"/errored-not-terminal", "event-after-errored", "watcher %s received an event after the terminal Errored event: %v\nevents before: %s", rec.Name, descr, renderEvents(rec.Events))
			}
			rec.Done = true
			return
		}
		if spec.CancelAfter > 0 && n >= spec.CancelAfter {
			rec.Cancelled = true
			rec.Done = true
			env.out.probe("watch-cancelled")
			env.out.fault("cancel:watch-context")
			return
		}
		if spec.DelayMs > 0 {
			simrt.Sleep(time.Duration(spec.DelayMs) * time.Millisecond)
		}
		if spec.StallAfter > 0 && n >= spec.StallAfter && spec.StallMs > 0 {
			simrt.Sleep(time.Duration(spec.StallMs) * time.Millisecond)
			spec.StallMs = 0
			env.out.probe("consumer-stalled")
			env.out.fault("consumer:stall")
		}
	}
}
