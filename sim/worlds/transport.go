package worlds

import (
	"context"
	"fmt"
	"io"
	"runtime/debug"

	"google.golang.org/grpc"
	"google.golang.org/grpc/codes"
	"google.golang.org/grpc/metadata"
	"google.golang.org/grpc/status"

	"github.com/cosi-project/runtime/api/v1alpha1"
	"github.com/cosi-project/runtime/pkg/controller/runtime/zzverif/simrt"
	"github.com/cosi-project/runtime/pkg/state"
	"github.com/cosi-project/runtime/pkg/state/protobuf/client"
	"github.com/cosi-project/runtime/pkg/state/protobuf/server"
)

// StreamFault resets a watch stream.
type StreamFault struct {
	Stream int `json:"stream"` // n-th successfully established Watch stream of the run (1-based)
	After  int `json:"after"`  // reset after this many delivered messages (the establishment ack counts as message 0)
	// Clean: the stream does not break with Unavailable, it ENDS (the handler returned nil: a draining server or a
	// proxy closing the stream gracefully); the client sees io.EOF
	Clean bool `json:"clean,omitempty"`
}

// TransportFaults is the fault script of the simulated gRPC leg.
type TransportFaults struct {
	OldServer  bool           `json:"old_server,omitempty"`  // Teardown / TeardownAndDestroy answer Unimplemented
	UnaryFail  map[int]string `json:"unary_fail,omitempty"`  // n-th unary call -> before | after
	Resets     []StreamFault  `json:"resets,omitempty"`      // stream resets
	WatchFail  map[int]string `json:"watch_fail,omitempty"`  // n-th Watch() attempt -> call | first-recv
	StreamBuf  int            `json:"stream_buf,omitempty"`  // messages in flight per stream
	NoRetry    bool           `json:"no_retry,omitempty"`    // client adapter built WithDisableWatchRetry
	OutageFrom int            `json:"outage_from,omitempty"` // Watch() attempts >= this all fail ... (0 = none)
	OutageLen  int            `json:"outage_len,omitempty"`  // ... for this many attempts
}

type vtMsg interface {
	MarshalVT() ([]byte, error)
	UnmarshalVT([]byte) error
}

// simTransport implements v1alpha1.StateClient in-process: every message is marshalled and unmarshalled, handler
// errors are mapped through status exactly as grpc-go does, a handler panic is a server crash.
type simTransport struct {
	srv          v1alpha1.StateServer
	faults       *TransportFaults
	out          *Outcome
	unaryN       int
	watchAttempt int
	streamN      int
	ServerPanics []string
	Calls        map[string]int
	msgs         int
}

func newSimTransport(core state.CoreState, f *TransportFaults, out *Outcome) *simTransport {
	if f == nil {
		f = &TransportFaults{}
	}
	return &simTransport{srv: server.NewState(core), faults: f, out: out, Calls: map[string]int{}}
}

func toStatusErr(err error) error {
	if err == nil {
		return nil
	}
	if st, ok := status.FromError(err); ok {
		return status.Error(st.Code(), st.Message())
	}
	st := status.FromContextError(err)
	return status.Error(st.Code(), st.Message())
}

func roundtrip[T any, PT interface {
	*T
	vtMsg
}](in PT) (PT, error) {
	b, err := in.MarshalVT()
	if err != nil {
		return nil, err
	}
	out := PT(new(T))
	if err := out.UnmarshalVT(b); err != nil {
		return nil, err
	}
	return out, nil
}

func (t *simTransport) crashed(name string, r any) error {
	msg := fmt.Sprintf("handler %s panicked: %v\n%s", name, r, debug.Stack())
	t.ServerPanics = append(t.ServerPanics, msg)
	return status.Error(codes.Unavailable, "server process crashed")
}

func unaryCall[Req any, PReq interface {
	*Req
	vtMsg
}, Resp any, PResp interface {
	*Resp
	vtMsg
}](t *simTransport, ctx context.Context, name string, req PReq, h func(context.Context, PReq) (PResp, error)) (resp PResp, err error) {
	t.unaryN++
	n := t.unaryN
	t.Calls[name]++
	simrt.Yield("rpc:" + name)
	if ctx.Err() != nil {
		return nil, toStatusErr(ctx.Err())
	}
	f := t.faults.UnaryFail[n]
	if f == "before" {
		t.out.fault("unary-unavailable-before")
		return nil, status.Error(codes.Unavailable, "injected: connection lost before the request was sent")
	}
	reqCopy, err := roundtrip[Req, PReq](req)
	if err != nil {
		return nil, status.Error(codes.Internal, "marshal request: "+err.Error())
	}
	var hresp PResp
	var herr error
	func() {
		defer func() {
			if r := recover(); r != nil {
				herr = t.crashed(name, r)
			}
		}()
		hresp, herr = h(ctx, reqCopy)
	}()
	if f == "after" {
		t.out.fault("unary-unavailable-after")
		return nil, status.Error(codes.Unavailable, "injected: connection lost before the response arrived")
	}
	if herr != nil {
		return nil, toStatusErr(herr)
	}
	respCopy, err := roundtrip[Resp, PResp](hresp)
	if err != nil {
		return nil, status.Error(codes.Internal, "marshal response: "+err.Error())
	}
	simrt.Yield("rpc-reply:" + name)
	return respCopy, nil
}

// Get implements v1alpha1.StateClient.
func (t *simTransport) Get(ctx context.Context, in *v1alpha1.GetRequest, _ ...grpc.CallOption) (*v1alpha1.GetResponse, error) {
	return unaryCall(t, ctx, "Get", in, t.srv.Get)
}

// Create implements v1alpha1.StateClient.
func (t *simTransport) Create(ctx context.Context, in *v1alpha1.CreateRequest, _ ...grpc.CallOption) (*v1alpha1.CreateResponse, error) {
	return unaryCall(t, ctx, "Create", in, t.srv.Create)
}

// Update implements v1alpha1.StateClient.
func (t *simTransport) Update(ctx context.Context, in *v1alpha1.UpdateRequest, _ ...grpc.CallOption) (*v1alpha1.UpdateResponse, error) {
	return unaryCall(t, ctx, "Update", in, t.srv.Update)
}

// Destroy implements v1alpha1.StateClient.
func (t *simTransport) Destroy(ctx context.Context, in *v1alpha1.DestroyRequest, _ ...grpc.CallOption) (*v1alpha1.DestroyResponse, error) {
	return unaryCall(t, ctx, "Destroy", in, t.srv.Destroy)
}

// Teardown implements v1alpha1.StateClient.
func (t *simTransport) Teardown(ctx context.Context, in *v1alpha1.TeardownRequest, _ ...grpc.CallOption) (*v1alpha1.TeardownResponse, error) {
	if t.faults.OldServer {
		t.Calls["Teardown"]++
		t.out.fault("old-server-unimplemented")
		simrt.Yield("rpc:Teardown")
		return nil, status.Error(codes.Unimplemented, "method Teardown not implemented")
	}
	return unaryCall(t, ctx, "Teardown", in, t.srv.Teardown)
}

// TeardownAndDestroy implements v1alpha1.StateClient.
func (t *simTransport) TeardownAndDestroy(ctx context.Context, in *v1alpha1.TeardownAndDestroyRequest, _ ...grpc.CallOption) (*v1alpha1.TeardownAndDestroyResponse, error) {
	if t.faults.OldServer {
		t.Calls["TeardownAndDestroy"]++
		t.out.fault("old-server-unimplemented")
		simrt.Yield("rpc:TeardownAndDestroy")
		return nil, status.Error(codes.Unimplemented, "method TeardownAndDestroy not implemented")
	}
	return unaryCall(t, ctx, "TeardownAndDestroy", in, t.srv.TeardownAndDestroy)
}

// simStream is one server-streaming call.
type simStream[T any, PT interface {
	*T
	vtMsg
}] struct {
	t         *simTransport
	name      string
	ctx       context.Context // server side context
	clientCtx context.Context
	cancel    context.CancelFunc
	ch        chan []byte
	done      chan struct{}
	final     error // set before done is closed
	delivered int
	resetAt   int // -1: never
	broken    bool
	cleanEnd  bool // the reset is a clean end of stream (io.EOF)
}

// ---- server side (grpc.ServerStreamingServer[T])

func (s *simStream[T, PT]) Send(m PT) error {
	b, err := m.MarshalVT()
	if err != nil {
		return status.Error(codes.Internal, err.Error())
	}
	c := simrt.SendAny(s.ch, b)
	d := simrt.Recv(s.ctx.Done())
	if simrt.Select("stream.send:"+s.name, false, d, c) == 0 {
		return toStatusErr(s.ctx.Err())
	}
	return nil
}
func (s *simStream[T, PT]) Context() context.Context     { return s.ctx }
func (s *simStream[T, PT]) SetHeader(metadata.MD) error  { return nil }
func (s *simStream[T, PT]) SendHeader(metadata.MD) error { return nil }
func (s *simStream[T, PT]) SetTrailer(metadata.MD)       {}
func (s *simStream[T, PT]) SendMsg(any) error            { return fmt.Errorf("not supported") }
func (s *simStream[T, PT]) RecvMsg(any) error            { return fmt.Errorf("not supported") }

// ---- client side (grpc.ServerStreamingClient[T])

type simClientStream[T any, PT interface {
	*T
	vtMsg
}] struct{ s *simStream[T, PT] }

func (c simClientStream[T, PT]) Recv() (PT, error) {
	s := c.s
	if s.broken {
		if s.cleanEnd {
			return nil, io.EOF
		}
		return nil, status.Error(codes.Unavailable, "injected: stream is broken")
	}
	if s.resetAt >= 0 && s.delivered >= s.resetAt {
		s.broken = true
		s.cancel()
		simrt.Yield("stream.reset:" + s.name)
		if s.cleanEnd {
			s.t.out.fault("stream-ended-cleanly")
			return nil, io.EOF
		}
		s.t.out.fault("stream-reset")
		return nil, status.Error(codes.Unavailable, "injected: stream reset by transport")
	}
	deliver := func(b []byte) (PT, error) {
		m := PT(new(T))
		if err := m.UnmarshalVT(b); err != nil {
			return nil, status.Error(codes.Internal, err.Error())
		}
		s.delivered++
		s.t.msgs++
		return m, nil
	}
	// everything sent before the handler returned is delivered before the final status
	mc := simrt.Recv(s.ch)
	dc := simrt.Recv(s.done)
	cc := simrt.Recv(s.clientCtx.Done())
	for {
		if simrt.Select("stream.recv-poll:"+s.name, true, mc) == 0 {
			return deliver(mc.V)
		}
		switch simrt.Select("stream.recv:"+s.name, false, mc, dc, cc) {
		case 0:
			return deliver(mc.V)
		case 1:
			// drain what is left
			if simrt.Select("stream.recv-drain:"+s.name, true, mc) == 0 {
				return deliver(mc.V)
			}
			if s.final == nil {
				return nil, io.EOF
			}
			return nil, s.final
		default:
			return nil, toStatusErr(s.clientCtx.Err())
		}
	}
}
func (c simClientStream[T, PT]) Header() (metadata.MD, error) { return nil, nil }
func (c simClientStream[T, PT]) Trailer() metadata.MD         { return nil }
func (c simClientStream[T, PT]) CloseSend() error             { return nil }
func (c simClientStream[T, PT]) Context() context.Context     { return c.s.clientCtx }
func (c simClientStream[T, PT]) SendMsg(any) error            { return fmt.Errorf("not supported") }
func (c simClientStream[T, PT]) RecvMsg(any) error            { return fmt.Errorf("not supported") }

func startStream[Req any, PReq interface {
	*Req
	vtMsg
}, T any, PT interface {
	*T
	vtMsg
}](t *simTransport, ctx context.Context, name string, req PReq, resetAt int, cleanEnd bool, h func(PReq, *simStream[T, PT]) error) (simClientStream[T, PT], error) {
	t.Calls[name]++
	simrt.Yield("rpc:" + name)
	if ctx.Err() != nil {
		return simClientStream[T, PT]{}, toStatusErr(ctx.Err())
	}
	reqCopy, err := roundtrip[Req, PReq](req)
	if err != nil {
		return simClientStream[T, PT]{}, status.Error(codes.Internal, "marshal request: "+err.Error())
	}
	sctx, cancel := context.WithCancel(ctx)
	buf := t.faults.StreamBuf
	s := &simStream[T, PT]{t: t, name: name, ctx: sctx, clientCtx: ctx, cancel: cancel, ch: make(chan []byte, buf), done: make(chan struct{}), resetAt: resetAt, cleanEnd: cleanEnd}
	simrt.Go("rpc-handler:"+name, func() {
		defer cancel()
		var herr error
		func() {
			defer func() {
				if r := recover(); r != nil {
					herr = t.crashed(name, r)
				}
			}()
			herr = h(reqCopy, s)
		}()
		s.final = toStatusErr(herr)
		close(s.done)
	})
	return simClientStream[T, PT]{s}, nil
}

// List implements v1alpha1.StateClient.
func (t *simTransport) List(ctx context.Context, in *v1alpha1.ListRequest, _ ...grpc.CallOption) (grpc.ServerStreamingClient[v1alpha1.ListResponse], error) {
	return startStream(t, ctx, "List", in, -1, false, func(r *v1alpha1.ListRequest, s *simStream[v1alpha1.ListResponse, *v1alpha1.ListResponse]) error {
		return t.srv.List(r, s)
	})
}

// Watch implements v1alpha1.StateClient.
func (t *simTransport) Watch(ctx context.Context, in *v1alpha1.WatchRequest, _ ...grpc.CallOption) (grpc.ServerStreamingClient[v1alpha1.WatchResponse], error) {
	t.watchAttempt++
	n := t.watchAttempt
	f := t.faults.WatchFail[n]
	if t.faults.OutageLen > 0 && n >= t.faults.OutageFrom && n < t.faults.OutageFrom+t.faults.OutageLen {
		f = "call"
	}
	if f == "call" {
		t.out.fault("watch-establish-failed")
		simrt.Yield("rpc:Watch")
		return nil, status.Error(codes.Unavailable, "injected: cannot connect")
	}
	resetAt := -1
	cleanEnd := false
	if f == "first-recv" {
		t.out.fault("watch-first-recv-failed")
		resetAt = 0
	} else {
		t.streamN++
		for _, r := range t.faults.Resets {
			if r.Stream == t.streamN {
				resetAt = r.After + 1 // the ack is message 0
				cleanEnd = r.Clean
			}
		}
	}
	return startStream(t, ctx, "Watch", in, resetAt, cleanEnd, func(r *v1alpha1.WatchRequest, s *simStream[v1alpha1.WatchResponse, *v1alpha1.WatchResponse]) error {
		return t.srv.Watch(r, s)
	})
}

// remoteAvailable tells whether the simulated gRPC leg exists.
const remoteAvailable = true

// remoteCore builds client adapter -> sim transport -> server -> core.
func remoteCore(core state.CoreState, faults *TransportFaults, out *Outcome) (*client.Adapter, *simTransport) {
	tr := newSimTransport(core, faults, out)
	var opts []client.AdapterOption
	if faults != nil && faults.NoRetry {
		opts = append(opts, client.WithDisableWatchRetry())
	}
	return client.NewAdapter(tr, opts...), tr
}

func remoteState(core state.CoreState, faults *TransportFaults, out *Outcome) (state.State, *simTransport) {
	ad, tr := remoteCore(core, faults, out)
	return state.WrapCore(ad), tr
}

// checkServerAlive reports a server crash (handler panic) as a violation.
func (t *simTransport) checkServerAlive(prop string, out *Outcome) {
	if t != nil && len(t.ServerPanics) > 0 {
		out.violate(prop+"/server-crash", "server-crash:"+firstLine(t.ServerPanics[0]), "a request crashed the gRPC server process (handler panic is not recovered by grpc): %s", t.ServerPanics[0])
	}
}
