package worlds

import (
	"context"
	"errors"
	"fmt"
	"strconv"
	"strings"
	"time"

	"github.com/cosi-project/runtime/pkg/controller/runtime/zzverif/simrt"
	"github.com/cosi-project/runtime/pkg/resource"
	"github.com/cosi-project/runtime/pkg/state"
	"github.com/cosi-project/runtime/pkg/state/impl/inmem"
	"github.com/cosi-project/runtime/pkg/state/impl/namespaced"
)

// HistCfg is the watch-history configuration of the in-memory store.
type HistCfg struct {
	Initial int `json:"initial,omitempty"`
	Max     int `json:"max,omitempty"`
	Gap     int `json:"gap,omitempty"`
}

func (h HistCfg) opts() []inmem.StateOption {
	var o []inmem.StateOption
	if h.Initial > 0 {
		o = append(o, inmem.WithHistoryInitialCapacity(h.Initial))
		mx := h.Max
		if mx < h.Initial {
			mx = h.Initial
		}
		o = append(o, inmem.WithHistoryMaxCapacity(mx))
		o = append(o, inmem.WithHistoryGap(h.Gap))
	}
	return o
}

// Commit is one committed write as seen by the commit tap (the store's BackingStore seam).
type Commit struct {
	Seq     int
	Kind    string // put | destroy
	NS      string
	Type    string
	ID      string
	Snap    Snap // value written (put) / zero (destroy)
	Task    string
	Step    int64
	SimTime int64
}

// Tap is a never-failing recording backing store: the totally ordered log of committed writes.
type Tap struct {
	ns       string
	Log      *[]Commit
	OnCommit func(c Commit)
	// Fail, if set, may reject a write (C10 fault injection): returns an error before applying.
	Fail func(kind string, typ, id string) error
	// Preload is what the backing store already contains (handed to Load, with a scheduling point between items).
	Preload []resource.Resource
}

// Load implements inmem.BackingStore.
func (t *Tap) Load(_ context.Context, h inmem.LoadHandler) error {
	for _, r := range t.Preload {
		simrt.Yield("backingstore.load")
		if err := h(r.Metadata().Type(), r.DeepCopy()); err != nil {
			return err
		}
	}
	simrt.Yield("backingstore.load-done")
	return nil
}

// Put implements inmem.BackingStore.
func (t *Tap) Put(_ context.Context, typ resource.Type, res resource.Resource) error {
	if t.Fail != nil {
		if err := t.Fail("put", typ, res.Metadata().ID()); err != nil {
			return err
		}
	}
	t.record(Commit{Kind: "put", NS: t.ns, Type: typ, ID: res.Metadata().ID(), Snap: SnapOf(res)})
	return nil
}

// Destroy implements inmem.BackingStore.
func (t *Tap) Destroy(_ context.Context, typ resource.Type, ptr resource.Pointer) error {
	if t.Fail != nil {
		if err := t.Fail("destroy", typ, ptr.ID()); err != nil {
			return err
		}
	}
	t.record(Commit{Kind: "destroy", NS: t.ns, Type: typ, ID: ptr.ID()})
	return nil
}

func (t *Tap) record(c Commit) {
	c.Seq = len(*t.Log)
	c.Task = simrt.Me()
	if s := simrt.Cur(); s != nil {
		c.Step = s.Step()
		c.SimTime = int64(s.Now())
	}
	*t.Log = append(*t.Log, c)
	if t.OnCommit != nil {
		t.OnCommit(c)
	}
}

// StoreWorld is a store under test plus its ground-truth tap.
type StoreWorld struct {
	Core     state.CoreState
	St       state.State
	Log      []Commit
	Variant  string
	onCommit func(Commit)
	// failWrite, if set, may reject a backing-store write before it is applied (fault injection)
	failWrite func(kind, typ, id string) error
}

var errStoreFault = errors.New("injected store fault: write rejected")

// eventTriggers lets harness tasks react to named harness events (a probe finished reading, a reconcile returned).
type eventTriggers struct{ waiting map[string][]chan struct{} }

func newEventTriggers() *eventTriggers { return &eventTriggers{waiting: map[string][]chan struct{}{}} }

func (et *eventTriggers) fire(name string) {
	if et == nil || len(et.waiting[name]) == 0 {
		return
	}
	for _, ch := range et.waiting[name] {
		close(ch)
	}
	delete(et.waiting, name)
}

func (et *eventTriggers) wait(ctx context.Context, name string) bool {
	ch := make(chan struct{})
	et.waiting[name] = append(et.waiting[name], ch)
	return simrt.Select("event.wait", false, simrt.Recv[struct{}](ch), simrt.Recv(ctx.Done())) == 0
}

// commitTriggers lets harness tasks react to commits: "place the fault right after the event that opens the window". The
// tap calls fire in the committing task (no scheduling point); waiters are woken and compete with that task's next step.
type commitTriggers struct {
	typ     string
	waiting map[string][]chan struct{}
	prev    map[string]Snap
}

func newCommitTriggers(typ string) *commitTriggers {
	return &commitTriggers{typ: typ, waiting: map[string][]chan struct{}{}, prev: map[string]Snap{}}
}

func (ct *commitTriggers) fire(c Commit) {
	if c.Type != ct.typ {
		return
	}
	var keys []string
	p, existed := ct.prev[c.ID]
	if c.Kind == "destroy" {
		keys = append(keys, "destroyed:"+c.ID)
		delete(ct.prev, c.ID)
	} else {
		if !existed {
			keys = append(keys, "created:"+c.ID)
		}
		if c.Snap.Phase == "tearingDown" && (!existed || p.Phase != "tearingDown") {
			keys = append(keys, "td:"+c.ID)
		}
		if existed && c.Snap.Fins == "" && p.Fins != "" {
			keys = append(keys, "fin-empty:"+c.ID)
		}
		if c.Snap.Fins != "" && (!existed || p.Fins == "") {
			keys = append(keys, "fin-added:"+c.ID)
		}
		ct.prev[c.ID] = c.Snap
	}
	for _, k := range keys {
		for _, ch := range ct.waiting[k] {
			close(ch)
		}
		delete(ct.waiting, k)
	}
}

// wait blocks the calling task until the trigger fires (true) or ctx ends (false).
func (ct *commitTriggers) wait(ctx context.Context, trigger, id string) bool {
	ch := make(chan struct{})
	k := trigger + ":" + id
	ct.waiting[k] = append(ct.waiting[k], ch)
	return simrt.Select("trigger.wait", false, simrt.Recv[struct{}](ch), simrt.Recv(ctx.Done())) == 0
}

// Variants of the store stack.
var storeVariants = []string{"inmem", "namespaced", "inmem+tap", "namespaced+tap", "inmem+preload+tap"}

// preloaded is the content of the backing store in the "+preload" variants.
func preloaded() []resource.Resource {
	var out []resource.Resource
	for i, id := range []string{"r0", "r1"} {
		r := NewRes("ns1", TypeA, id, "preloaded-"+id)
		v, _ := resource.ParseVersion(strconv.Itoa(2 + i))
		r.Metadata().SetVersion(v)
		_ = r.Metadata().SetOwner([]string{"", "A"}[i])
		r.Metadata().SetCreated(time.Date(1999, 1, 1, 0, 0, i, 0, time.UTC))
		r.Metadata().SetUpdated(time.Date(1999, 1, 2, 0, 0, i, 0, time.UTC))
		if i == 1 {
			r.Metadata().Finalizers().Add("f1")
		}
		out = append(out, r)
	}
	return out
}

// NewStoreWorld builds a store stack. Must be called inside the bubble.
func NewStoreWorld(variant string, h HistCfg) *StoreWorld {
	w := &StoreWorld{Variant: variant}
	mk := func(ns string, tap bool) *inmem.State {
		o := h.opts()
		if tap {
			tp := &Tap{ns: ns, Log: &w.Log, OnCommit: func(c Commit) {
				if w.onCommit != nil {
					w.onCommit(c)
				}
			}}
			if strings.Contains(variant, "+preload") {
				tp.Preload = preloaded()
			}
			tp.Fail = func(kind string, typ, id string) error {
				if w.failWrite != nil {
					return w.failWrite(kind, typ, id)
				}
				return nil
			}
			o = append(o, inmem.WithBackingStore(tp))
		}
		return inmem.NewStateWithOptions(o...)(ns)
	}
	switch variant {
	case "inmem":
		w.Core = mk("ns1", false)
	case "inmem+tap", "inmem+preload+tap":
		w.Core = mk("ns1", true)
	case "namespaced":
		w.Core = namespaced.NewState(func(ns resource.Namespace) state.CoreState { return mk(ns, false) })
	case "namespaced+tap":
		w.Core = namespaced.NewState(func(ns resource.Namespace) state.CoreState { return mk(ns, true) })
	default:
		panic(fmt.Sprintf("unknown store variant %q", variant))
	}
	w.St = state.WrapCore(w.Core)
	return w
}

// Namespaces usable with the variant.
func variantNamespaces(variant string) []string {
	if len(variant) >= 10 && variant[:10] == "namespaced" {
		return []string{"ns1", "ns2"}
	}
	return []string{"ns1"}
}

// ErrClass is the classification of an error through the public predicates.
type ErrClass struct {
	NotFound bool
	Conflict bool
	Owner    bool
	Phase    bool
	Other    string
	// Injected: the backing store rejected the write (fault injection); the call must have had no effect
	Injected bool
}

func (e ErrClass) String() string {
	switch {
	case e.Injected:
		return "store-rejected"
	case e.NotFound:
		return "notfound"
	case e.Owner:
		return "owner-conflict"
	case e.Phase:
		return "phase-conflict"
	case e.Conflict:
		return "conflict"
	case e.Other != "":
		return "other:" + e.Other
	}
	return "ok"
}

// classify evaluates every error predicate, bare and qualified, under recover. A panic or an
// inconsistent qualified answer is returned as a problem string.
func classify(err error, ns, typ string) (c ErrClass, problem string) {
	if err == nil {
		return c, ""
	}
	defer func() {
		if r := recover(); r != nil {
			problem = fmt.Sprintf("error predicate panicked on %T (%v): %v", err, err, r)
		}
	}()
	c.NotFound = state.IsNotFoundError(err)
	c.Conflict = state.IsConflictError(err)
	c.Owner = state.IsOwnerConflictError(err)
	c.Phase = state.IsPhaseConflictError(err)
	if !c.NotFound && !c.Conflict && !c.Owner && !c.Phase {
		c.Other = err.Error()
	}
	if c.Conflict {
		// qualifiers: matching ones must agree with the bare answer, mismatching ones must deny
		if !state.IsConflictError(err, state.WithResourceNamespace(ns)) {
			return c, fmt.Sprintf("IsConflictError(WithResourceNamespace(%q)) denies a conflict on that namespace: %v", ns, err)
		}
		if !state.IsConflictError(err, state.WithResourceType(typ)) {
			return c, fmt.Sprintf("IsConflictError(WithResourceType(%q)) denies a conflict on that type: %v", typ, err)
		}
		if !state.IsConflictError(err, state.WithResourceType(typ), state.WithResourceNamespace(ns)) {
			return c, fmt.Sprintf("IsConflictError(type+namespace) denies a conflict: %v", err)
		}
		if state.IsConflictError(err, state.WithResourceNamespace(ns+"-other")) {
			return c, fmt.Sprintf("IsConflictError(WithResourceNamespace(other)) accepts a conflict of namespace %q: %v", ns, err)
		}
		if state.IsConflictError(err, state.WithResourceType(typ+"-other")) {
			return c, fmt.Sprintf("IsConflictError(WithResourceType(other)) accepts a conflict of type %q: %v", typ, err)
		}
		// both qualifiers, one matching and one not (in both argument orders)
		for _, opts := range [][]state.ErrcheckOption{
			{state.WithResourceType(typ), state.WithResourceNamespace(ns + "-other")},
			{state.WithResourceNamespace(ns + "-other"), state.WithResourceType(typ)},
			{state.WithResourceType(typ + "-other"), state.WithResourceNamespace(ns)},
			{state.WithResourceNamespace(ns), state.WithResourceType(typ + "-other")},
		} {
			if state.IsConflictError(err, opts...) {
				return c, fmt.Sprintf("IsConflictError with one matching and one non-matching qualifier accepts a conflict of %s/%s: %v", ns, typ, err)
			}
		}
	}
	return c, ""
}
