// Package worlds holds the simulated worlds and per-property checks (DESIGN §4, §7).
package worlds
