package worlds

import (
	"context"
	"encoding/json"
	"errors"
	"fmt"
	"strings"
	"testing"
	"time"

	"github.com/cosi-project/runtime/pkg/controller/runtime/zzverif/simrt"
	"github.com/cosi-project/runtime/pkg/resource"
	"github.com/cosi-project/runtime/pkg/safe"
	"github.com/cosi-project/runtime/pkg/state"
	"github.com/cosi-project/runtime/pkg/state/owned"
)

// ---------------------------------------------------------------------------
// C04 — read-modify-write helpers are atomic under contention (DESIGN §7 C04)
// (also carries C03's S2: Teardown's ready flag)

// RMWCall is one helper call.
type RMWCall struct {
	Kind    string `json:"kind"`          // uwc | modify | addfin | remfin | teardown | create | destroy
	API     string `json:"api,omitempty"` // state | owned | safe
	ID      string `json:"id"`
	Owner   string `json:"owner,omitempty"`
	Phase   string `json:"phase,omitempty"` // "" | any | running | tearingDown
	Mut     string `json:"mut,omitempty"`   // token | label | noop | fail
	Fin     string `json:"fin,omitempty"`
	Val     string `json:"val,omitempty"`
	SleepMs int    `json:"sleep_ms,omitempty"`
	// After: issue the call right after the named commit on the resource (td | fin-empty | fin-added | destroyed | created)
	// instead of at a random time
	After string `json:"after,omitempty"`
}

// C04Case is a C04 run.
type C04Case struct {
	Common
	Variant string      `json:"variant"`
	Pre     []RMWCall   `json:"pre"` // resources created before the callers start (kind=create)
	Callers [][]RMWCall `json:"callers"`
}

type c04 struct{}

func init() { register(c04{}) }

func (c04) ID() string { return "C04" }

func (c04) Rule() string {
	return "case = tapped store variant + pre-existing resources (owner ''/A) + 2-6 callers x 1-4 calls of UpdateWithConflicts / Modify(WithResult) / AddFinalizer / RemoveFinalizer / Teardown through state.State, owned.State and pkg/safe wrappers (mutators: append unique token, set own label, no-op, failing; owner and expected-phase options matching or not) + adversarial destroy/re-create + schedule policy; non-trivial = >=2 callers whose call windows on the same resource overlap and >=1 version-conflict retry happened inside a helper; distinct = distinct scheduler trace hash"
}

func (c04) Components() (real, stub []string) {
	return []string{"pkg/state (wrap.go helpers, options)", "pkg/state/owned", "pkg/safe", "pkg/state/impl/inmem", "pkg/state/impl/namespaced"},
		[]string{"Go scheduler choice (simrt)", "OS clock (synctest)", "mutator callbacks (harness)"}
}

func (c04) Decode(b []byte) (Case, error) {
	var c C04Case
	err := json.Unmarshal(b, &c)
	return &c, err
}

func (c04) Gen(seed uint64, tier string) Case {
	r := simrt.NewRNG(seed)
	c := &C04Case{Common: Common{Prop: "C04", Seed: seed, Tier: tier}}
	c.Variant = []string{"inmem+tap", "namespaced+tap"}[r.Intn(2)]
	nids := 1 + r.Intn(2)
	for i := 0; i < nids; i++ {
		if r.Bool(0.8) {
			c.Pre = append(c.Pre, RMWCall{Kind: "create", ID: fmt.Sprintf("r%d", i), Owner: []string{"", "A"}[r.Pick([]int{2, 1})], Val: fmt.Sprintf("pre%d", i)})
		}
	}
	ncallers := 2 + r.Intn(5)
	maxCalls := 3
	if tier == "thorough" {
		maxCalls = 5
	}
	uniq := 0
	var prefixes []string
	for i := 0; i < ncallers; i++ {
		var calls []RMWCall
		n := 1 + r.Intn(maxCalls)
		for j := 0; j < n; j++ {
			uniq++
			call := RMWCall{ID: fmt.Sprintf("r%d", r.Intn(nids)), Val: fmt.Sprintf("t%d_%d", i, uniq)}
			call.API = []string{"state", "owned", "safe"}[r.Pick([]int{3, 2, 2})]
			call.Owner = []string{"", "A"}[r.Pick([]int{2, 1})]
			call.Phase = []string{"", "any", "tearingDown", "running"}[r.Pick([]int{5, 3, 1, 1})]
			switch r.Pick([]int{8, 5, 3, 3, 2, 1, 1}) {
			case 0:
				call.Kind = "uwc"
				if call.API == "owned" {
					call.API = "state"
				}
			case 1:
				call.Kind = "modify"
			case 2:
				call.Kind = "addfin"
				call.Fin = []string{"f1", "f2", "f1,f2", "f2,f3", "f1,f3"}[r.Pick([]int{3, 3, 1, 1, 1})]
			case 3:
				call.Kind = "remfin"
				call.Fin = []string{"f1", "f2"}[r.Intn(2)]
			case 4:
				call.Kind = "teardown"
			case 5:
				call.Kind = "destroy"
			case 6:
				call.Kind = "create"
			}
			if call.Kind == "uwc" || call.Kind == "modify" {
				call.Mut = []string{"token", "label", "noop", "fail", "shared", "fail-conflict"}[r.Pick([]int{8, 2, 1, 1, 3, 1})]
			}
			if r.Bool(0.15) {
				call.SleepMs = 1 + r.Intn(1000)
			}
			if r.Bool(0.15) {
				call.After = []string{"td", "fin-empty", "fin-added", "destroyed", "created"}[r.Intn(5)]
				call.SleepMs = 0
			}
			calls = append(calls, call)
		}
		c.Callers = append(c.Callers, calls)
		prefixes = append(prefixes, fmt.Sprintf("caller%d", i))
	}
	c.Policy = genPolicy(r, prefixes)
	return c
}

func (c04) Shrink(cs Case) []Case {
	c := cs.(*C04Case)
	var out []Case
	if len(c.Callers) > 1 {
		for i := range c.Callers {
			n := cloneJSON(c)
			n.Callers = dropAt(n.Callers, i)
			out = append(out, n)
		}
	}
	for i := range c.Callers {
		for j := range c.Callers[i] {
			n := cloneJSON(c)
			n.Callers[i] = dropAt(n.Callers[i], j)
			out = append(out, n)
		}
	}
	for i := range c.Pre {
		n := cloneJSON(c)
		n.Pre = dropAt(n.Pre, i)
		out = append(out, n)
	}
	for i := range c.Callers {
		for j, call := range c.Callers[i] {
			if call.SleepMs != 0 {
				n := cloneJSON(c)
				n.Callers[i][j].SleepMs = 0
				out = append(out, n)
			}
			if call.API != "state" && call.API != "" {
				n := cloneJSON(c)
				n.Callers[i][j].API = "state"
				out = append(out, n)
			}
		}
	}
	if c.Variant != "inmem+tap" {
		n := cloneJSON(c)
		n.Variant = "inmem+tap"
		out = append(out, n)
	}
	if c.Policy.Kind != "walk" || c.Policy.SwitchProb != 0.2 || c.Policy.PermuteMaps || c.Policy.StarvePrefix != "" || c.Policy.PreemptProb != 0 {
		n := cloneJSON(c)
		n.Policy = simrt.Policy{Kind: "walk", SwitchProb: 0.2}
		out = append(out, n)
	}
	return out
}

var errMutator = errors.New("mutator failed on purpose")

// errMutatorConflict is a mutator failure that satisfies state.IsConflictError (as an error propagated from a nested
// Create that found the resource already there would): the helpers must hand it back, not retry on it.
type errMutatorConflict struct{ ptr resource.Pointer }

func (e errMutatorConflict) Error() string {
	return "mutator failed on purpose with a conflict-class error"
}
func (e errMutatorConflict) ConflictError()                {}
func (e errMutatorConflict) GetResource() resource.Pointer { return e.ptr }

type rmwRec struct {
	Task         string
	Call         RMWCall
	Invoke, Ret  int // tap log length (whole log) at invoke / return
	Err          error
	Class        ErrClass
	Result       *Snap
	Ready        bool
	MutatorCalls int
}

func phaseOpts(phase string) []state.UpdateOption {
	switch phase {
	case "any":
		return []state.UpdateOption{state.WithExpectedPhaseAny()}
	case "running":
		return []state.UpdateOption{state.WithExpectedPhase(resource.PhaseRunning)}
	case "tearingDown":
		return []state.UpdateOption{state.WithExpectedPhase(resource.PhaseTearingDown)}
	}
	return nil
}

func mutator(call RMWCall, caller string, n *int) func(resource.Resource) error {
	return func(r resource.Resource) error {
		*n++
		simrt.Yield("mutator")
		switch call.Mut {
		case "token":
			sp := SpecOf(r)
			sp.Tokens = append(sp.Tokens, call.Val)
		case "label":
			r.Metadata().Labels().Set("l-"+caller, call.Val)
		case "shared":
			r.Metadata().Labels().Set("shared", "1") // the same idempotent change from every caller
		case "fail":
			return errMutator
		case "fail-conflict":
			return errMutatorConflict{ptr: r.Metadata()}
		}
		return nil
	}
}

func execRMW(ctx context.Context, st state.State, call RMWCall, caller string, rec *rmwRec) {
	ptr := resource.NewMetadata("ns1", TypeA, call.ID, resource.VersionUndefined)
	f := mutator(call, caller, &rec.MutatorCalls)
	var res resource.Resource
	switch call.Kind {
	case "create":
		r := NewRes("ns1", TypeA, call.ID, call.Val)
		rec.Err = st.Create(ctx, r, state.WithCreateOwner(call.Owner))
	case "destroy":
		rec.Err = st.Destroy(ctx, ptr, state.WithDestroyOwner(call.Owner))
	case "uwc":
		opts := append([]state.UpdateOption{state.WithUpdateOwner(call.Owner)}, phaseOpts(call.Phase)...)
		if call.API == "safe" {
			var a *A
			a, rec.Err = safe.StateUpdateWithConflicts(ctx, st, ptr, func(r *A) error { return f(r) }, opts...)
			if rec.Err == nil {
				res = a
			}
		} else {
			res, rec.Err = st.UpdateWithConflicts(ctx, ptr, f, opts...)
		}
	case "modify":
		empty := NewRes("ns1", TypeA, call.ID, "").(*A)
		switch call.API {
		case "owned":
			ow := owned.New(st, call.Owner)
			var mo []owned.ModifyOption
			switch call.Phase {
			case "any":
				mo = append(mo, owned.WithExpectedPhaseAny())
			case "running":
				mo = append(mo, owned.WithExpectedPhase(resource.PhaseRunning))
			case "tearingDown":
				mo = append(mo, owned.WithExpectedPhase(resource.PhaseTearingDown))
			}
			res, rec.Err = ow.ModifyWithResult(ctx, empty, f, mo...)
		case "safe":
			opts := append([]state.UpdateOption{state.WithUpdateOwner(call.Owner)}, phaseOpts(call.Phase)...)
			var a *A
			a, rec.Err = safe.StateModifyWithResult(ctx, st, empty, func(r *A) error { return f(r) }, opts...)
			if rec.Err == nil {
				res = a
			}
		default:
			opts := append([]state.UpdateOption{state.WithUpdateOwner(call.Owner)}, phaseOpts(call.Phase)...)
			res, rec.Err = st.ModifyWithResult(ctx, empty, f, opts...)
		}
	case "addfin":
		if call.API == "owned" {
			rec.Err = owned.New(st, call.Owner).AddFinalizer(ctx, ptr, strings.Split(call.Fin, ",")...)
		} else {
			rec.Err = st.AddFinalizer(ctx, ptr, strings.Split(call.Fin, ",")...)
		}
	case "remfin":
		if call.API == "owned" {
			rec.Err = owned.New(st, call.Owner).RemoveFinalizer(ctx, ptr, call.Fin)
		} else {
			rec.Err = st.RemoveFinalizer(ctx, ptr, call.Fin)
		}
	case "teardown":
		if call.API == "owned" {
			rec.Ready, rec.Err = owned.New(st, call.Owner).Teardown(ctx, ptr)
		} else {
			rec.Ready, rec.Err = st.Teardown(ctx, ptr, state.WithTeardownOwner(call.Owner))
		}
	}
	if rec.Err == nil && res != nil {
		s := SnapOf(res)
		rec.Result = &s
	}
}

// resState is the state of one resource at a log position.
type resState struct {
	Exists bool
	Snap   Snap
}

// statesOf returns the states of resource id after log[:k] for k = 0..len(log).
func statesOf(log []Commit, ns, typ, id string) []resState {
	out := make([]resState, 0, len(log)+1)
	cur := resState{}
	out = append(out, cur)
	for _, c := range log {
		if c.NS == ns && c.Type == typ && c.ID == id {
			if c.Kind == "put" {
				cur = resState{Exists: true, Snap: c.Snap}
			} else {
				cur = resState{}
			}
		}
		out = append(out, cur)
	}
	return out
}

func phaseOK(call RMWCall, phase string) bool {
	exp := call.Phase
	if call.Kind == "addfin" || call.Kind == "remfin" {
		exp = "any"
	}
	if call.Kind == "teardown" {
		// Teardown marks a *running* resource through UpdateWithConflicts with the default expected phase; losing a
		// race against another teardown surfaces as a phase conflict (an error without effect, which C04 permits)
		exp = "running"
	}
	switch exp {
	case "any":
		return true
	case "tearingDown":
		return phase == "tearingDown"
	default:
		return phase == "running"
	}
}

func hasToken(tokens, t string) bool {
	for _, x := range strings.Split(tokens, ",") {
		if x == t && t != "" {
			return true
		}
	}
	return false
}

func hasFin(fins, f string) bool {
	for _, x := range strings.Split(fins, ",") {
		if x == f && f != "" {
			return true
		}
	}
	return false
}

// sameExcept compares two snaps ignoring version/updated and the fields named in skip.
func sameExcept(a, b Snap, skip ...string) string {
	sk := map[string]bool{}
	for _, s := range skip {
		sk[s] = true
	}
	var diffs []string
	chk := func(name, x, y string) {
		if !sk[name] && x != y {
			diffs = append(diffs, fmt.Sprintf("%s %q -> %q", name, x, y))
		}
	}
	chk("owner", a.Owner, b.Owner)
	chk("phase", a.Phase, b.Phase)
	chk("fins", a.Fins, b.Fins)
	chk("labels", a.Labels, b.Labels)
	chk("annots", a.Annots, b.Annots)
	chk("val", a.Val, b.Val)
	chk("tokens", a.Tokens, b.Tokens)
	if a.Created != b.Created {
		diffs = append(diffs, "created changed")
	}
	return strings.Join(diffs, "; ")
}

func checkRMW(prop string, rec *rmwRec, log []Commit, out *Outcome) {
	call := rec.Call
	if call.Kind == "create" || call.Kind == "destroy" {
		return
	}
	states := statesOf(log, "ns1", TypeA, call.ID)
	window := states[rec.Invoke : rec.Ret+1]
	var mine []int
	for i := rec.Invoke; i < rec.Ret; i++ {
		c := log[i]
		if c.Task == rec.Task && c.ID == call.ID && c.Type == TypeA {
			mine = append(mine, i)
		}
	}
	desc := fmt.Sprintf("%s %s(api=%s id=%s owner=%q phase=%q mut=%s fin=%s val=%s) window=log[%d:%d]", rec.Task, call.Kind, call.API, call.ID, call.Owner, call.Phase, call.Mut, call.Fin, call.Val, rec.Invoke, rec.Ret)
	fail := func(oracle, sig, format string, args ...any) {
		out.violate(prop+"/"+oracle, sig+":"+call.Kind, "%s: %s\nlog: %s", desc, fmt.Sprintf(format, args...), renderLogFull(log, call.ID))
	}
	exists := func(pred func(resState) bool) bool {
		for _, s := range window {
			if pred(s) {
				return true
			}
		}
		return false
	}
	if rec.Err != nil {
		if len(mine) != 0 {
			fail("error-had-effect", "error-with-commit", "call returned error %v but committed %d write(s)", rec.Err, len(mine))
			return
		}
		cl := rec.Class
		switch {
		case errors.Is(rec.Err, errMutator):
			if call.Mut != "fail" {
				fail("error-class", "bad-error", "unexpected mutator error")
			}
		case errors.As(rec.Err, &errMutatorConflict{}):
			if call.Mut != "fail-conflict" {
				fail("error-class", "bad-error", "unexpected mutator error")
			}
			if rec.MutatorCalls != 1 {
				fail("mutator-error-retried", "mutator-error-retried", "the mutator failed (with an error of the conflict class) and was invoked %d times: a mutator's own error must be handed back, not retried", rec.MutatorCalls)
			}
		case cl.NotFound:
			if !exists(func(s resState) bool { return !s.Exists }) {
				fail("error-class", "spurious-notfound", "not-found although the resource existed throughout the call")
			}
		case cl.Owner:
			ok := exists(func(s resState) bool { return s.Exists && s.Snap.Owner != call.Owner })
			if call.Kind == "addfin" || call.Kind == "remfin" {
				ok = len(window) > 1
			}
			if !ok {
				fail("error-class", "spurious-owner-conflict", "owner conflict although the owner matched throughout the call")
			}
		case cl.Phase:
			if !exists(func(s resState) bool { return s.Exists && !phaseOK(call, s.Snap.Phase) }) {
				fail("error-class", "spurious-phase-conflict", "phase conflict although the phase matched throughout the call")
			}
		case cl.Conflict:
			// plain conflict: only Modify's create racing another create
			if call.Kind == "teardown" && exists(func(s resState) bool { return s.Exists && s.Snap.Phase != "running" }) {
				// through the gRPC leg the Teardown RPC reports a lost teardown race (a phase conflict) as a plain
				// conflict status; what the class should be is C11's business
				break
			}
			if call.Kind != "modify" || !exists(func(s resState) bool { return !s.Exists }) || !exists(func(s resState) bool { return s.Exists }) {
				fail("conflict-leaked", "version-conflict-leaked", "plain (version/exists) conflict %v surfaced from a conflict-retrying helper", rec.Err)
			}
		default:
			fail("error-class", "unclassified", "unclassifiable error %v", rec.Err)
		}
		return
	}
	// success
	if call.Mut == "fail" || call.Mut == "fail-conflict" {
		fail("mutator-error-swallowed", "fail-success", "the mutator failed but the call reported success")
		return
	}
	if len(mine) > 1 {
		fail("applied-twice", "two-commits", "call committed %d writes", len(mine))
		return
	}
	if len(mine) == 0 {
		// declared or effective no-op: some state during the call must make it one
		ok := false
		switch call.Kind {
		case "uwc", "modify":
			ok = call.Mut == "noop" && exists(func(s resState) bool { return s.Exists && phaseOK(call, s.Snap.Phase) })
			if call.Mut == "shared" {
				ok = exists(func(s resState) bool {
					return s.Exists && phaseOK(call, s.Snap.Phase) && strings.Contains(s.Snap.Labels, "shared=1;")
				})
			}
		case "addfin":
			ok = exists(func(s resState) bool { return s.Exists && hasAllFins(s.Snap.Fins, call.Fin) })
		case "remfin":
			ok = exists(func(s resState) bool { return s.Exists && !hasFin(s.Snap.Fins, call.Fin) })
		case "teardown":
			ok = exists(func(s resState) bool { return s.Exists && s.Snap.Phase == "tearingDown" })
		}
		if !ok {
			fail("lost-update", "success-without-commit", "call reported success but committed nothing, and no state during the call makes it a no-op")
			return
		}
		if call.Kind == "teardown" {
			checkReady(prop, rec, window, fail)
		}
		return
	}
	j := mine[0]
	pred := states[j]
	cm := log[j]
	if cm.Kind != "put" {
		fail("wrong-effect", "destroy-by-helper", "helper destroyed the resource")
		return
	}
	if !pred.Exists {
		if call.Kind != "modify" {
			fail("wrong-effect", "create-by-non-modify", "%s created the resource", call.Kind)
			return
		}
		if cm.Snap.Version != "1" || cm.Snap.Owner != call.Owner {
			fail("wrong-effect", "bad-create", "Modify created version %s owner %q", cm.Snap.Version, cm.Snap.Owner)
			return
		}
		want := ""
		if call.Mut == "token" {
			want = call.Val
		}
		if cm.Snap.Tokens != want {
			fail("wrong-effect", "bad-create-content", "Modify created tokens [%s], want [%s]", cm.Snap.Tokens, want)
			return
		}
	} else {
		if verNum(cm.Snap.Version) != verNum(pred.Snap.Version)+1 {
			fail("wrong-effect", "version-jump", "commit version %s on top of %s", cm.Snap.Version, pred.Snap.Version)
			return
		}
		if call.Kind == "uwc" || call.Kind == "modify" || call.Kind == "teardown" {
			if pred.Snap.Owner != call.Owner {
				fail("owner-bypassed", "owner-bypassed", "succeeded on a resource owned by %q while naming owner %q", pred.Snap.Owner, call.Owner)
				return
			}
		}
		if !phaseOK(call, pred.Snap.Phase) {
			fail("phase-bypassed", "phase-bypassed", "succeeded on a resource in phase %s while expecting %q", pred.Snap.Phase, call.Phase)
			return
		}
		d := mutationDiff(call, rec, pred.Snap, cm.Snap)
		if d != "" {
			// a base from a previous incarnation of the resource (destroyed and re-created during the call, both at
			// the same version) is the known ABA finding; anything else is a plain stale base
			for k := rec.Invoke; k < j; k++ {
				old := states[k]
				if !old.Exists || old.Snap.Version != pred.Snap.Version {
					continue
				}
				destroyed := false
				for m := k; m < j; m++ {
					if log[m].ID == call.ID && log[m].Type == TypeA && log[m].Kind == "destroy" {
						destroyed = true
					}
				}
				oldSnap := old.Snap
				oldSnap.Created = cm.Snap.Created // Update keeps the creation time of the stored (new) incarnation
				if destroyed && mutationDiff(call, rec, oldSnap, cm.Snap) == "" {
					fail("not-on-top-of-current", "aba-reincarnation", "the committed value is the call's mutation applied to a PREVIOUS incarnation of the resource (read at log position %d, destroyed and re-created at the same version %s before the update): %s", k, pred.Snap.Version, d)
					return
				}
			}
		}
		if d != "" {
			fail("not-on-top-of-current", "stale-base", "the committed value is not the call's mutation applied to the then-current value: %s", d)
			return
		}
	}
	if rec.Result != nil && *rec.Result != cm.Snap {
		fail("returned-object", "returned-differs", "returned object %+v differs from the committed value %+v", *rec.Result, cm.Snap)
		return
	}
	if call.Kind == "teardown" {
		checkReady(prop, rec, states[j+1:rec.Ret+1], fail)
	}
}

// mutationDiff returns "" iff cm is exactly the call's mutation applied to base.
func mutationDiff(call RMWCall, rec *rmwRec, base, cm Snap) string {
	var d string
	switch {
	case call.Kind == "teardown":
		d = sameExcept(base, cm, "phase")
		if cm.Phase != "tearingDown" {
			d += "; phase not tearingDown"
		}
	case call.Kind == "addfin":
		d = sameExcept(base, cm, "fins")
		union := map[string]bool{}
		for _, f := range strings.Split(base.Fins+","+call.Fin, ",") {
			if f != "" {
				union[f] = true
			}
		}
		got := 0
		for _, f := range strings.Split(cm.Fins, ",") {
			if f != "" {
				got++
			}
		}
		if hasAllFins(base.Fins, call.Fin) || !hasAllFins(cm.Fins, call.Fin) || got != len(union) {
			d += fmt.Sprintf("; fins [%s] + [%s] -> [%s]", base.Fins, call.Fin, cm.Fins)
		}
	case call.Kind == "remfin":
		d = sameExcept(base, cm, "fins")
		if !hasFin(base.Fins, call.Fin) || hasFin(cm.Fins, call.Fin) || len(strings.Split(base.Fins, ",")) != len(strings.Split(strings.Trim(cm.Fins+","+call.Fin, ","), ",")) {
			d += fmt.Sprintf("; fins [%s] -> [%s]", base.Fins, cm.Fins)
		}
	case call.Mut == "token":
		d = sameExcept(base, cm, "tokens")
		want := strings.Trim(base.Tokens+","+call.Val, ",")
		if cm.Tokens != want {
			d += fmt.Sprintf("; tokens [%s] -> [%s], want [%s]", base.Tokens, cm.Tokens, want)
		}
	case call.Mut == "label":
		d = sameExcept(base, cm, "labels")
		if !strings.Contains(cm.Labels, "l-"+rec.Task+"="+call.Val+";") {
			d += "; label not set"
		}
	case call.Mut == "shared":
		d = sameExcept(base, cm, "labels")
		if strings.Contains(base.Labels, "shared=1;") || !strings.Contains(cm.Labels, "shared=1;") {
			d += fmt.Sprintf("; labels [%s] -> [%s]", base.Labels, cm.Labels)
		}
	case call.Mut == "noop":
		d = "no-op mutator produced a commit"
	}
	return strings.TrimPrefix(d, "; ")
}

// hasAllFins tells whether every finalizer of the comma-separated list want is in the rendered list fins.
func hasAllFins(fins, want string) bool {
	for _, f := range strings.Split(want, ",") {
		if f != "" && !hasFin(fins, f) {
			return false
		}
	}
	return true
}

func checkReady(prop string, rec *rmwRec, window []resState, fail func(oracle, sig, format string, args ...any)) {
	for _, s := range window {
		if s.Exists && s.Snap.Phase == "tearingDown" && (s.Snap.Fins == "") == rec.Ready {
			return
		}
	}
	fail("teardown-ready", "ready-flag", "Teardown returned ready=%v but no tearing-down state during the call had finalizers-empty=%v", rec.Ready, rec.Ready)
}

func renderLogFull(log []Commit, id string) string {
	var parts []string
	for _, c := range log {
		if id != "" && c.ID != id {
			continue
		}
		if c.Kind == "put" {
			parts = append(parts, fmt.Sprintf("%d:%s put(%s@%s owner=%q %s fins=[%s] labels=[%s] tokens=[%s])", c.Seq, c.Task, c.ID, c.Snap.Version, c.Snap.Owner, c.Snap.Phase, c.Snap.Fins, c.Snap.Labels, c.Snap.Tokens))
		} else {
			parts = append(parts, fmt.Sprintf("%d:%s destroy(%s)", c.Seq, c.Task, c.ID))
		}
	}
	return "[" + strings.Join(parts, "\n      ") + "]"
}

func (c04) Run(t *testing.T, cs Case, trace bool) *Outcome {
	c := cs.(*C04Case)
	out := &Outcome{}
	var recs []*rmwRec
	st, panics, berr := simrt.Run(t, simrt.Config{Seed: c.Seed, Policy: c.Policy, Trace: trace}, func(s *simrt.Sim) {
		w := NewStoreWorld(c.Variant, HistCfg{})
		ctx, cancel := context.WithCancel(context.Background())
		defer cancel()
		for _, p := range c.Pre {
			r := NewRes("ns1", TypeA, p.ID, p.Val)
			if err := w.St.Create(ctx, r, state.WithCreateOwner(p.Owner)); err != nil {
				out.HarnessErr = "pre-create: " + err.Error()
				return
			}
		}
		trig := newCommitTriggers(TypeA)
		for _, cm := range w.Log {
			trig.fire(cm)
		}
		w.onCommit = trig.fire
		trigCtx, trigCancel := context.WithCancel(ctx)
		defer trigCancel()
		for i, calls := range c.Callers {
			name := fmt.Sprintf("caller%d", i)
			s.Spawn(name, func() {
				for _, call := range calls {
					if call.SleepMs > 0 {
						simrt.Sleep(time.Duration(call.SleepMs) * time.Millisecond)
					}
					if call.After != "" {
						if !trig.wait(trigCtx, call.After, call.ID) {
							return
						}
						out.fault("reactive-caller:" + call.After + "->" + call.Kind)
					}
					simrt.Yield("caller.op")
					rec := &rmwRec{Task: name, Call: call, Invoke: len(w.Log)}
					execRMW(ctx, w.St, call, name, rec)
					rec.Ret = len(w.Log)
					if rec.Err != nil && !errors.Is(rec.Err, errMutator) {
						var problem string
						rec.Class, problem = classify(rec.Err, "ns1", TypeA)
						if problem != "" {
							out.violate("C04/error-totality", "error-predicates", "%s", problem)
						}
					}
					if rec.MutatorCalls > 1 {
						out.probe("conflict-retry")
					}
					recs = append(recs, rec)
				}
			})
		}
		if r := s.Settle(400000); r != simrt.Quiescent {
			// nothing in this world waits for time: 400 000 scheduling steps without going quiet is a helper spinning
			out.violate("C04/termination", "livelock", "after 400000 scheduling steps the helper calls have not finished (a conflict-retrying helper keeps retrying): %v; live: %v", r, s.Live())
			return
		}
		// callers waiting for a commit trigger that never came are harness waits, not blocked helper calls: release them
		trigCancel()
		if r := s.Settle(400000); r != simrt.Quiescent {
			out.HarnessErr = fmt.Sprintf("C04 run did not become quiescent after releasing trigger waits: %v live=%v", r, s.Live())
			return
		}
		if n := s.LiveCount(); n != 0 {
			out.violate("C04/termination", "blocked-call", "helper calls still blocked at quiescence: %v", s.Live())
		}
		if ps := s.Panics(); len(ps) > 0 {
			out.violate("C04/panic", "panic:"+firstLine(ps[0].Value), "task %s panicked: %s\n%s", ps[0].Task, ps[0].Value, ps[0].Stack)
			return
		}
		for _, rec := range recs {
			checkRMW("C04", rec, w.Log, out)
			if rec.Err == nil {
				out.probe("call-ok:" + rec.Call.Kind)
			} else {
				out.probe("call-err:" + rec.Class.String())
			}
		}
		overlap := false
		for i := range recs {
			for j := range recs {
				if i != j && recs[i].Task != recs[j].Task && recs[i].Call.ID == recs[j].Call.ID && recs[i].Invoke < recs[j].Ret && recs[j].Invoke < recs[i].Ret {
					overlap = true
				}
			}
		}
		out.Nontrivial = overlap && out.Probes["conflict-retry"] > 0
		if trace {
			out.Trace = s.Trace()
			for _, rec := range recs {
				out.Notes = append(out.Notes, fmt.Sprintf("%s %+v [%d,%d] err=%v ready=%v mutcalls=%d", rec.Task, rec.Call, rec.Invoke, rec.Ret, rec.Err, rec.Ready, rec.MutatorCalls))
			}
			out.Notes = append(out.Notes, "log: "+renderLogFull(w.Log, ""))
		}
	})
	out.finish(st, panics, berr, false)
	return out
}
