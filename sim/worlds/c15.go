package worlds

import (
	"context"
	"encoding/json"
	"fmt"
	"strings"
	"testing"
	"time"

	"github.com/cosi-project/runtime/pkg/controller"
	"github.com/cosi-project/runtime/pkg/controller/runtime/zzverif/simrt"
	"github.com/cosi-project/runtime/pkg/resource"
	"github.com/cosi-project/runtime/pkg/state"
)

// ---------------------------------------------------------------------------
// C15 — runtime read cache coherence (DESIGN §7 C15)

// CachedRead is one read of an external reader through Runtime.CachedState().
type CachedRead struct {
	Kind    string `json:"kind"` // list | get
	ID      string `json:"id,omitempty"`
	Sel     int    `json:"sel"` // -1: no selector
	SleepMs int    `json:"sleep_ms,omitempty"`
}

// C15Case is a C15 run.
type C15Case struct {
	Common
	Selectors []Selector     `json:"selectors,omitempty"`
	BatchMs   int            `json:"batch_ms,omitempty"` // >0: the state coalesces aggregated watch batches over this window
	Pre       []WriteOp      `json:"pre"`
	Writers   [][]WriteOp    `json:"writers"`
	Readers   [][]CachedRead `json:"readers"`
	Probes    []ProbeSpec    `json:"probes"`
	TdIDs     []string       `json:"td_ids,omitempty"` // resources for which a controller asks a teardown-bound context
	// TdSiblingMs > 0: before each of those contexts a sibling context for the same resource is obtained under its own
	// parent, which is cancelled after this many virtual ms (another reader of the resource going away)
	TdSiblingMs int `json:"td_sibling_ms,omitempty"`
	StartMs     int `json:"start_ms,omitempty"`
}

type c15 struct{}

func init() { register(c15{}) }

func (c15) ID() string { return "C15" }

func (c15) Rule() string {
	return "case = controller runtime with type A served from the read cache (optionally behind a state that coalesces aggregated watch batches over a window - any batching is legal) + resources written before Run + writers active while the runtime bootstraps and afterwards + 1-3 external readers issuing cached Get / List (with label/id selectors) from before the runtime starts + probe controllers reading through the cache + a controller asking teardown-bound contexts for cached resources; oracles: every cached read equals the (selector-filtered) store contents at SOME commit position between runtime start and the read's return (never a partial bootstrap view, never a state that did not exist), per reader and resource incarnation versions never go back, at every quiescent point cached == uncached for every selector and every probe's last cached observation is current, teardown-bound contexts are cancelled iff the resource was torn down / removed / absent; non-trivial = a cached read was blocked across the bootstrap or overlapped with commits; distinct = distinct scheduler trace hash"
}

func (c15) Components() (real, stub []string) {
	return []string{"pkg/controller/runtime/internal/cache (cache.go, handler.go, state.go)", "pkg/controller/runtime (processEvents bootstrap/cache/notify ordering)", "internal/controllerstate (cached reads, ContextWithTeardown)", "pkg/state/impl/inmem"},
		[]string{"Go scheduler choice (simrt)", "OS clock (synctest)", "batch-coalescing state wrapper (harness; a legal re-batching of the aggregated watch)", "controller bodies (harness probes)"}
}

func (c15) Decode(b []byte) (Case, error) {
	var c C15Case
	err := json.Unmarshal(b, &c)
	return &c, err
}

func (c15) Gen(seed uint64, tier string) Case {
	r := simrt.NewRNG(seed)
	c := &C15Case{Common: Common{Prop: "C15", Seed: seed, Tier: tier}}
	for i := 0; i < r.Intn(3); i++ {
		c.Selectors = append(c.Selectors, genSelector(r))
	}
	if r.Bool(0.4) {
		c.BatchMs = 1 + r.Intn(600)
	}
	nids := 1 + r.Intn(3)
	uniq := 0
	c.Pre = genLabelOps(r, 8, r.Intn(7), nids, &uniq)
	for i := range c.Pre {
		c.Pre[i].SleepMs = 0
	}
	maxOps := 10
	if tier == "thorough" {
		maxOps = 20
	}
	for i := 0; i < 1+r.Intn(2); i++ {
		ops := genLabelOps(r, i, 2+r.Intn(maxOps), nids, &uniq)
		for j := range ops {
			if r.Bool(0.2) {
				ops[j].Mut = []string{"teardown", "fin+f1", "fin-f1"}[r.Intn(3)]
				ops[j].Kind = "update"
			}
			if ops[j].SleepMs > 800 {
				ops[j].SleepMs = r.Intn(800)
			}
		}
		c.Writers = append(c.Writers, ops)
	}
	for i := 0; i < 1+r.Intn(3); i++ {
		var reads []CachedRead
		for j := 0; j < 1+r.Intn(6); j++ {
			rd := CachedRead{Kind: []string{"list", "get"}[r.Pick([]int{2, 1})], ID: fmt.Sprintf("r%d", r.Intn(nids)), Sel: -1}
			if rd.Kind == "list" && len(c.Selectors) > 0 && r.Bool(0.5) {
				rd.Sel = r.Intn(len(c.Selectors))
			}
			if r.Bool(0.5) {
				rd.SleepMs = r.Intn(1200)
			}
			reads = append(reads, rd)
		}
		c.Readers = append(c.Readers, reads)
	}
	for i := 0; i < r.Intn(3); i++ {
		p := ProbeSpec{Name: fmt.Sprintf("probe%d", i), RegisterMs: -1}
		p.Inputs = []InputSpec{{Type: TypeA, Kind: []string{"weak", "strong"}[r.Intn(2)]}}
		if r.Bool(0.3) {
			p.Inputs[0].ID = fmt.Sprintf("r%d", r.Intn(nids))
		}
		if r.Bool(0.4) {
			p.WorkMs = 1 + r.Intn(800)
		}
		if r.Bool(0.3) {
			p.Q = true
			p.Inputs = []InputSpec{{Type: TypeA, Kind: "qprimary"}}
			p.Concurrency = 1 + r.Intn(2)
		}
		c.Probes = append(c.Probes, p)
	}
	for i := 0; i < r.Intn(3); i++ {
		c.TdIDs = append(c.TdIDs, fmt.Sprintf("r%d", r.Intn(nids)))
	}
	if len(c.TdIDs) > 0 && r.Bool(0.5) {
		c.TdSiblingMs = 1 + r.Intn(2000)
	}
	c.StartMs = r.Intn(500)
	c.Policy = genPolicy(r, []string{"rt/", "rt", "writer", "reader"})
	return c
}

func (c15) Shrink(cs Case) []Case {
	c := cs.(*C15Case)
	var out []Case
	for i := range c.Readers {
		if len(c.Readers) > 1 {
			n := cloneJSON(c)
			n.Readers = dropAt(n.Readers, i)
			out = append(out, n)
		}
		for j := range c.Readers[i] {
			n := cloneJSON(c)
			n.Readers[i] = dropAt(n.Readers[i], j)
			out = append(out, n)
		}
	}
	for i := range c.Writers {
		n := cloneJSON(c)
		n.Writers = dropAt(n.Writers, i)
		out = append(out, n)
		for j := range c.Writers[i] {
			n2 := cloneJSON(c)
			n2.Writers[i] = dropAt(n2.Writers[i], j)
			out = append(out, n2)
		}
	}
	for i := range c.Pre {
		n := cloneJSON(c)
		n.Pre = dropAt(n.Pre, i)
		out = append(out, n)
	}
	for i := range c.Probes {
		n := cloneJSON(c)
		n.Probes = dropAt(n.Probes, i)
		out = append(out, n)
	}
	if c.TdSiblingMs > 0 {
		n := cloneJSON(c)
		n.TdSiblingMs = 0
		out = append(out, n)
	}
	for i := range c.TdIDs {
		n := cloneJSON(c)
		n.TdIDs = dropAt(n.TdIDs, i)
		out = append(out, n)
	}
	if c.BatchMs > 0 {
		n := cloneJSON(c)
		n.BatchMs = 0
		out = append(out, n)
	}
	if c.Policy.Kind != "walk" || c.Policy.SwitchProb != 0.2 || c.Policy.PermuteMaps || c.Policy.StarvePrefix != "" || c.Policy.PreemptProb != 0 {
		n := cloneJSON(c)
		n.Policy = simrt.Policy{Kind: "walk", SwitchProb: 0.2}
		out = append(out, n)
	}
	return out
}

// batchingState re-batches aggregated watches: consecutive batches arriving within the window are merged into one.
// Any batching of an aggregated watch is legal; the in-memory state only ever produces some of them.
type batchingState struct {
	state.State
	window time.Duration
}

func (b batchingState) WatchKindAggregated(ctx context.Context, kind resource.Kind, ch chan<- []state.Event, opts ...state.WatchKindOption) error {
	inner := make(chan []state.Event)
	if err := b.State.WatchKindAggregated(ctx, kind, inner, opts...); err != nil {
		return err
	}
	simrt.Go("batcher", func() {
		for {
			c0 := simrt.Recv(inner)
			d := simrt.Recv(ctx.Done())
			if simrt.Select("batcher.recv", false, d, c0) == 0 {
				return
			}
			batch := append([]state.Event(nil), c0.V...)
			deadline := time.After(b.window)
		collect:
			for {
				c1 := simrt.Recv(inner)
				tm := simrt.Recv(deadline)
				d2 := simrt.Recv(ctx.Done())
				switch simrt.Select("batcher.collect", false, d2, c1, tm) {
				case 0:
					return
				case 1:
					batch = append(batch, c1.V...)
				default:
					break collect
				}
			}
			s := simrt.SendAny(ch, batch)
			d3 := simrt.Recv(ctx.Done())
			if simrt.Select("batcher.send", false, d3, s) == 0 {
				return
			}
		}
	})
	return nil
}

type cachedReadRec struct {
	Reader      int
	Read        CachedRead
	Invoke, Ret int // log lengths
	Err         error
	Items       map[string]Snap
	Blocked     bool
}

// tdProbe asks for teardown-bound contexts of cached resources.
type tdProbe struct {
	*Probe
	ids  []string
	ctxs map[string]context.Context
	at   map[string]int // log length when the context was obtained
	errs []string
}

func (c15) Run(t *testing.T, cs Case, trace bool) *Outcome {
	c := cs.(*C15Case)
	out := &Outcome{}
	var acks []Ack
	var ev int64
	var reads []*cachedReadRec
	st, panics, berr := simrt.Run(t, simrt.Config{Seed: c.Seed, Policy: c.Policy, Trace: trace}, func(s *simrt.Sim) {
		var wrap func(state.State) state.State
		if c.BatchMs > 0 {
			wrap = func(st state.State) state.State {
				out.fault("watch:batches-coalesced(run)")
				return batchingState{State: st, window: time.Duration(c.BatchMs) * time.Millisecond}
			}
		}
		w, err := NewRuntimeWorldWrapped("inmem+tap", HistCfg{}, RuntimeOpts{Cached: []string{TypeA}}, wrap, out)
		if err != nil {
			out.HarnessErr = err.Error()
			return
		}
		ctx, cancel := context.WithCancel(context.Background())
		defer cancel()
		wr := &writer{st: w.Core, acks: &acks, ev: &ev, out: out}
		s.Spawn("pre", func() {
			for _, op := range c.Pre {
				wr.do(ctx, op)
			}
		})
		s.Settle(100000)
		var probes []*Probe
		for _, ps := range c.Probes {
			p := NewProbe(ps, w, out)
			probes = append(probes, p)
			if err := p.Register(); err != nil {
				out.HarnessErr = fmt.Sprintf("register %s: %v", ps.Name, err)
				return
			}
		}
		var tdp *tdProbe
		if len(c.TdIDs) > 0 {
			tdp = &tdProbe{ids: c.TdIDs, ctxs: map[string]context.Context{}, at: map[string]int{}}
			tdp.Probe = NewProbe(ProbeSpec{Name: "tdprobe", Inputs: []InputSpec{{Type: TypeA, Kind: "weak"}}, RegisterMs: -1}, w, out)
			tdp.onReconcile = func(p *Probe, r controller.Runtime) error {
				for _, id := range tdp.ids {
					if _, have := tdp.ctxs[id]; have {
						continue
					}
					if c.TdSiblingMs > 0 {
						sctx, scancel := context.WithCancel(ctx)
						if _, err := r.ContextWithTeardown(sctx, resource.NewMetadata("ns1", TypeA, id, resource.VersionUndefined)); err == nil {
							simrt.Go("td-sibling-drop", func() {
								simrt.Sleep(time.Duration(c.TdSiblingMs) * time.Millisecond)
								out.fault("cancel:sibling-teardown-context")
								scancel()
							})
						} else {
							scancel()
						}
					}
					tctx, err := r.ContextWithTeardown(ctx, resource.NewMetadata("ns1", TypeA, id, resource.VersionUndefined))
					if err != nil {
						tdp.errs = append(tdp.errs, err.Error())
						continue
					}
					tdp.ctxs[id] = tctx
					tdp.at[id] = len(w.Log)
				}
				return nil
			}
			if err := tdp.Register(); err != nil {
				out.HarnessErr = err.Error()
				return
			}
			probes = append(probes, tdp.Probe)
		}
		cached := w.RT.CachedState()
		runStartLog := -1
		// readers start before the runtime does: their first reads block until the bootstrap is complete
		for i, rds := range c.Readers {
			s.Spawn(fmt.Sprintf("reader%d", i), func() {
				for _, rd := range rds {
					if rd.SleepMs > 0 {
						simrt.Sleep(time.Duration(rd.SleepMs) * time.Millisecond)
					}
					simrt.Yield("reader.op")
					rec := &cachedReadRec{Reader: i, Read: rd, Invoke: len(w.Log), Items: map[string]Snap{}}
					rec.Blocked = runStartLog < 0
					if rd.Kind == "get" {
						r, err := cached.Get(ctx, resource.NewMetadata("ns1", TypeA, rd.ID, resource.VersionUndefined))
						if err != nil && !state.IsNotFoundError(err) {
							rec.Err = err
						} else if err == nil {
							rec.Items[rd.ID] = SnapOf(r)
						}
					} else {
						var lo []state.ListOption
						if rd.Sel >= 0 {
							lo = c.Selectors[rd.Sel].listOpts()
						}
						l, err := cached.List(ctx, resource.NewMetadata("ns1", TypeA, "", resource.VersionUndefined), lo...)
						rec.Err = err
						for _, r := range l.Items {
							rec.Items[r.Metadata().ID()] = SnapOf(r)
						}
					}
					rec.Ret = len(w.Log)
					reads = append(reads, rec)
				}
			})
		}
		for i, ops := range c.Writers {
			wr := &writer{st: w.Core, acks: &acks, ev: &ev, out: out}
			s.Spawn(fmt.Sprintf("writer%d", i), func() {
				for _, op := range ops {
					wr.do(ctx, op)
				}
			})
		}
		s.Spawn("starter", func() {
			simrt.Sleep(time.Duration(c.StartMs) * time.Millisecond)
			simrt.Yield("runtime.start")
			runStartLog = len(w.Log)
			w.Start(s, ctx)
		})
		if r := s.Settle(1000000); r != simrt.Quiescent {
			out.HarnessErr = fmt.Sprintf("C15 run did not become quiescent: %v live=%v", r, s.Live())
			return
		}
		if ps := s.Panics(); len(ps) > 0 {
			out.violate("C15/panic", "panic:"+firstLine(ps[0].Value), "task %s panicked: %s\n%s", ps[0].Task, ps[0].Value, ps[0].Stack)
			return
		}
		if w.RunReturned {
			out.violate("C15/runtime-stopped", "runtime-stopped", "Runtime.Run returned: %v", w.RunErr)
			return
		}
		log := collectionLog(w.Log, "ns1", TypeA)
		// map whole-log positions to collection-log positions
		toColl := func(whole int) int {
			n := 0
			for _, cm := range w.Log[:min(whole, len(w.Log))] {
				if cm.NS == "ns1" && cm.Type == TypeA {
					n++
				}
			}
			return n
		}
		stateAt := func(k int) map[string]Snap {
			m := map[string]Snap{}
			for _, cm := range log[:k] {
				if cm.Kind == "put" {
					m[cm.ID] = cm.Snap
				} else {
					delete(m, cm.ID)
				}
			}
			return m
		}
		startColl := toColl(runStartLog)
		prevMinMatch := map[string]int{} // reader -> earliest commit position its previous read can stand for
		for _, rec := range reads {
			desc := fmt.Sprintf("reader%d %s id=%s sel=%d (invoked at log %d, returned at %d, runtime started at %d)", rec.Reader, rec.Read.Kind, rec.Read.ID, rec.Read.Sel, toColl(rec.Invoke), toColl(rec.Ret), startColl)
			if rec.Err != nil {
				out.violate("C15/read-error", "read-error", "%s failed: %v", desc, rec.Err)
				return
			}
			var sel Selector
			if rec.Read.Sel >= 0 {
				sel = c.Selectors[rec.Read.Sel]
			}
			lo, hi := startColl, toColl(rec.Ret)
			matched := -1
			for k := hi; k >= lo; k-- {
				full := stateAt(k)
				want := map[string]Snap{}
				for id, sn := range full {
					if rec.Read.Kind == "get" && id != rec.Read.ID {
						continue
					}
					if refMatchSnap(sel, sn) {
						want[id] = sn
					}
				}
				if snapsEqual(want, rec.Items) {
					matched = k
					break
				}
			}
			if matched < 0 {
				sig := "cached-read-never-existed"
				if rec.Blocked {
					sig = "partial-bootstrap-view"
				}
				out.violate("C15/consistent-view", sig+":"+rec.Read.Kind, "%s returned %s, which equals the store contents at no commit position between the runtime start and the return\nstore at return: %s\nlog: %s", desc, renderObs(rec.Items), renderObs(stateAt(hi)), renderLog(log))
				return
			}
			if rec.Blocked {
				out.probe("read-blocked-across-bootstrap")
				out.Nontrivial = true
			}
			if matched < hi {
				out.probe("cached-read-lagging")
			}
			// never goes backwards: the view of this read must not be definitely older than the view of the previous
			// read of the same reader (latest position this read can stand for < earliest position the previous one can)
			minMatch := matched
			for k := lo; k < matched; k++ {
				full := stateAt(k)
				want := map[string]Snap{}
				for id, sn := range full {
					if rec.Read.Kind == "get" && id != rec.Read.ID {
						continue
					}
					if refMatchSnap(sel, sn) {
						want[id] = sn
					}
				}
				if snapsEqual(want, rec.Items) {
					minMatch = k
					break
				}
			}
			rk := fmt.Sprintf("reader%d", rec.Reader)
			if prevMin, ok := prevMinMatch[rk]; ok && matched < prevMin {
				out.violate("C15/monotonic", "view-went-back", "%s returned %s, a view that is at most as new as commit %d, after the same reader had already observed a view at least as new as commit %d\nlog: %s", desc, renderObs(rec.Items), matched, prevMin, renderLog(log))
				return
			}
			prevMinMatch[rk] = minMatch
		}
		// quiescence: cached == uncached for every selector
		all, err := currentContents(w.Core, "ns1", TypeA)
		if err != nil {
			out.HarnessErr = err.Error()
			return
		}
		sels := append([]Selector{{}}, c.Selectors...)
		qres := make([]map[string]Snap, len(sels))
		var qerr error
		s.Spawn("final-reader", func() {
			for i, sel := range sels {
				l, err := cached.List(ctx, resource.NewMetadata("ns1", TypeA, "", resource.VersionUndefined), sel.listOpts()...)
				if err != nil {
					qerr = err
					return
				}
				m := map[string]Snap{}
				for _, r := range l.Items {
					m[r.Metadata().ID()] = SnapOf(r)
				}
				qres[i] = m
			}
		})
		if r := s.Settle(200000); r != simrt.Quiescent {
			out.HarnessErr = fmt.Sprintf("C15 final reads did not finish: %v live=%v", r, s.Live())
			return
		}
		if qerr != nil {
			out.violate("C15/read-error", "read-error", "cached list at quiescence failed: %v", qerr)
			return
		}
		for i, sel := range sels {
			want := map[string]Snap{}
			for id, sn := range all {
				if refMatchSnap(sel, sn) {
					want[id] = sn
				}
			}
			if !snapsEqual(qres[i], want) {
				out.violate("C15/quiescent-coherence", "cached-differs-at-quiescence", "at quiescence the cached List [%s] returns %s, the state holds %s\nlog: %s", sel, renderObs(qres[i]), renderObs(want), renderLog(log))
				return
			}
		}
		out.probe("quiescent-coherence-checked")
		checkProbesCurrent("C15", w, probes, map[string]int{}, 0, out)
		if out.Viol != nil {
			return
		}
		// teardown-bound contexts of cached resources
		if tdp != nil {
			if len(tdp.errs) > 0 {
				out.violate("C15/ctxtd-error", "ctxtd-error", "ContextWithTeardown on a cached resource failed: %s", tdp.errs[0])
				return
			}
			for id, tctx := range tdp.ctxs {
				from := toColl(tdp.at[id])
				trigger := false
				for k := from; k <= len(log); k++ {
					stt := stateAt(k)
					sn, ok := stt[id]
					if !ok || sn.Phase == "tearingDown" {
						trigger = true
					}
				}
				cancelled := tctx.Err() != nil
				// the cache may lag: a trigger shortly before the call also counts (the call saw a state from >= runtime start)
				early := false
				for k := startColl; k < from; k++ {
					sn, ok := stateAt(k)[id]
					if !ok || sn.Phase == "tearingDown" {
						early = true
					}
				}
				switch {
				case cancelled && !trigger && !early:
					out.violate("C15/ctxtd", "ctxtd-spurious-cancel", "the teardown-bound context of cached resource %s is cancelled although it was never torn down, removed or absent\nlog: %s", id, renderLog(log))
					return
				case !cancelled && trigger:
					cur, ok := all[id]
					if !ok || cur.Phase == "tearingDown" {
						out.violate("C15/ctxtd", "ctxtd-missed-cancel", "the teardown-bound context of cached resource %s (obtained at log %d) is still live at quiescence although the resource is %s\nlog: %s", id, from, map[bool]string{true: "tearing down", false: "gone"}[ok], renderLog(log))
						return
					}
					// torn down and re-created since: the context must have been cancelled at the teardown
					out.violate("C15/ctxtd", "ctxtd-missed-cancel", "the teardown-bound context of cached resource %s (obtained at log %d) was not cancelled although the resource was torn down / removed in between\nlog: %s", id, from, renderLog(log))
					return
				}
				out.probe("ctxtd-checked")
			}
		}
		if len(reads) > 0 && len(log) > startColl {
			out.Nontrivial = true
		}
		if trace {
			out.Trace = s.Trace()
			for _, rec := range reads {
				out.Notes = append(out.Notes, fmt.Sprintf("reader%d %+v [%d,%d] blocked=%v -> %s", rec.Reader, rec.Read, rec.Invoke, rec.Ret, rec.Blocked, renderObs(rec.Items)))
			}
			out.Notes = append(out.Notes, "runtime start at log "+fmt.Sprint(runStartLog), "log: "+renderLog(log))
		}
		cancel()
		s.Settle(500000)
	})
	out.finish(st, panics, berr, true)
	_ = strings.Join
	return out
}
