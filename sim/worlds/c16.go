package worlds

import (
	"context"
	"encoding/json"
	"errors"
	"fmt"
	"strings"
	"testing"
	"time"

	"go.uber.org/zap"

	"github.com/cosi-project/runtime/pkg/controller"
	"github.com/cosi-project/runtime/pkg/controller/runtime/zzverif/simrt"
	"github.com/cosi-project/runtime/pkg/resource"
	"github.com/cosi-project/runtime/pkg/task"
)

// ---------------------------------------------------------------------------
// C16 — fault containment, loud failure and clean shutdown (DESIGN §7 C16)

// C16Case is a C16 run.
type C16Case struct {
	Common
	Mode   string      `json:"mode"` // faults | watch-error | cancel
	RT     RuntimeOpts `json:"rt"`
	Hist   HistCfg     `json:"hist"`
	Probes []ProbeSpec `json:"probes"`
	// Scripts: per probe name, the outcome of its successive Run invocations (plain controllers) / run-hook
	// invocations (queue controllers): E P (fail at start) RE RP (fail at first reconcile) OKF (one good
	// reconcile, then fail at the next) LONG (healthy for 2 virtual minutes, then fail); afterwards healthy
	Scripts  map[string][]string `json:"scripts,omitempty"`
	Writer   []string            `json:"writer,omitempty"` // probes that also write an output each reconcile
	Tasks    [][]string          `json:"tasks,omitempty"`  // pkg/task tasks: outcome per invocation: E P OK
	Pre      []WriteOp           `json:"pre"`
	Phases   [][][]WriteOp       `json:"phases"`
	CancelMs int                 `json:"cancel_ms,omitempty"`
	// CancelToo (watch-error mode): the context is also cancelled at CancelMs, racing the watch failure
	CancelToo bool `json:"cancel_too,omitempty"`
	// items mode: reconcile outcome script per queue item (ok error requeue requeue-err skip panic)
	Items       map[string][]string `json:"items,omitempty"`
	Concurrency int                 `json:"concurrency,omitempty"`
	WorkMs      int                 `json:"work_ms,omitempty"`
	Touch       []WriteOp           `json:"touch,omitempty"`
	// Track: writer probes bracket their writes with StartTrackingOutputs / CleanupOutputs
	Track bool `json:"track,omitempty"`
}

type c16 struct{}

func init() { register(c16{}) }

func (c16) ID() string { return "C16" }

func (c16) Rule() string {
	return "three kinds of case: (faults) controller runtime with 2-4 probe controllers of both flavours, some of which follow a finite script of failures - error or panic at Run start, at the first reconcile, after one good reconcile, run hooks failing early or after two healthy virtual minutes - plus pkg/task tasks failing/panicking, while external writers change the inputs; (watch-error) tiny history so that the runtime's own watch overruns; (cancel) cancellation at a random virtual instant while controllers write outputs; oracles: Run keeps running under controller faults, healthy controllers stay current while others fail, restart delays after >=5 consecutive failures exceed first-failure delays of the same run and reset after a healthy cycle, after the last fault everybody converges; a watch failure makes Run return that error and nothing reconciles afterwards; after cancellation Run returns, every task exits and no write is attributed to the runtime afterwards; non-trivial = >=3 injected failures or a watch error or a cancellation during activity; distinct = distinct scheduler trace hash"
}

func (c16) Components() (real, stub []string) {
	return []string{"pkg/controller/runtime (Run, watch error path, shutdown)", "internal/rruntime (run.go restart loop, backoff), internal/qruntime (run hook backoff)", "pkg/task (restart loop)", "pkg/state/impl/inmem (overrun Errored)", "cenkalti/backoff on the virtual clock"},
		[]string{"Go scheduler choice (simrt)", "OS clock (synctest)", "controller / hook / task bodies (harness, following fault scripts)"}
}

func (c16) Decode(b []byte) (Case, error) {
	var c C16Case
	err := json.Unmarshal(b, &c)
	return &c, err
}

func (c16) Gen(seed uint64, tier string) Case {
	r := simrt.NewRNG(seed)
	c := &C16Case{Common: Common{Prop: "C16", Seed: seed, Tier: tier}, Scripts: map[string][]string{}}
	c.Mode = []string{"faults", "watch-error", "cancel", "items"}[r.Pick([]int{6, 2, 3, 2})]
	if c.Mode == "items" {
		// failing queue items: retried with growing, success-resettable backoff, without blocking other items
		c.Concurrency = 1 + r.Intn(3)
		c.WorkMs = []int{0, 0, 300, 2500}[r.Intn(4)]
		c.Items = map[string][]string{}
		for i := 0; i < 1+r.Intn(3); i++ {
			var sc []string
			for j := 0; j < 2+r.Intn(12); j++ {
				sc = append(sc, []string{"ok", "error", "requeue", "requeue-err", "skip", "panic"}[r.Pick([]int{2, 8, 2, 2, 1, 1})])
			}
			c.Items[fmt.Sprintf("r%d", i)] = sc
		}
		uniq := 0
		c.Touch = genWriteOps(r, 0, r.Intn(4), []string{TypeA}, len(c.Items), &uniq, false)
		for i := range c.Touch {
			c.Touch[i].SleepMs = r.Intn(20000)
		}
		c.Policy = genPolicy(r, []string{"rt/", "toucher"})
		return c
	}
	c.Track = r.Bool(0.5)
	nids := 1 + r.Intn(2)
	np := 2 + r.Intn(3)
	if tier == "thorough" {
		np = 2 + r.Intn(5)
	}
	for i := 0; i < np; i++ {
		p := genProbe(r, i, nids)
		p.MoreAt, p.More, p.KindChange = 0, nil, ""
		p.RegisterMs = -1
		if p.WorkMs > 500 {
			p.WorkMs = 500
		}
		c.Probes = append(c.Probes, p)
		if r.Bool(0.5) && !p.Q {
			c.Writer = append(c.Writer, p.Name)
		}
	}
	uniq := 0
	types := []string{TypeA, TypeB}
	c.Pre = genWriteOps(r, 8, r.Intn(4), types, nids, &uniq, true)
	switch c.Mode {
	case "faults":
		nf := 1 + r.Intn(np)
		for i := 0; i < nf; i++ {
			p := c.Probes[r.Intn(np)]
			var sc []string
			n := 1 + r.Intn(8)
			for j := 0; j < n; j++ {
				if p.Q {
					sc = append(sc, []string{"E", "P", "LONG"}[r.Pick([]int{5, 2, 1})])
				} else {
					sc = append(sc, []string{"E", "P", "RE", "RP", "OKF"}[r.Pick([]int{4, 2, 3, 1, 1})])
				}
			}
			c.Scripts[p.Name] = sc
		}
		for i := 0; i < r.Intn(3); i++ {
			var sc []string
			for j := 0; j < 1+r.Intn(7); j++ {
				sc = append(sc, []string{"E", "P"}[r.Pick([]int{3, 1})])
			}
			c.Tasks = append(c.Tasks, append(sc, "OK"))
		}
	case "watch-error":
		c.Hist = HistCfg{Initial: 1 + r.Intn(2), Gap: 0}
		c.Hist.Max = c.Hist.Initial
		if r.Bool(0.4) {
			c.CancelToo = true
			c.CancelMs = []int{0, 0, 0, 1, 50}[r.Intn(5)]
		}
	case "cancel":
		c.CancelMs = r.Intn(6000)
	}
	maxOps := 8
	for ph := 0; ph < 2; ph++ {
		var writers [][]WriteOp
		for i := 0; i < 1+r.Intn(2); i++ {
			burst := c.Mode == "watch-error" || r.Bool(0.4)
			writers = append(writers, genWriteOps(r, ph*3+i, 2+r.Intn(maxOps), types, nids, &uniq, burst))
		}
		c.Phases = append(c.Phases, writers)
	}
	c.Policy = genPolicy(r, []string{"rt/", "rt", "writer"})
	return c
}

func (c16) Shrink(cs Case) []Case {
	c := cs.(*C16Case)
	var out []Case
	if len(c.Probes) > 1 {
		for i := range c.Probes {
			n := cloneJSON(c)
			delete(n.Scripts, n.Probes[i].Name)
			n.Probes = dropAt(n.Probes, i)
			out = append(out, n)
		}
	}
	for k, sc := range c.Items {
		if len(c.Items) > 1 {
			n := cloneJSON(c)
			delete(n.Items, k)
			out = append(out, n)
		}
		for j := range sc {
			n2 := cloneJSON(c)
			n2.Items[k] = dropAt(n2.Items[k], j)
			out = append(out, n2)
		}
	}
	for i := range c.Touch {
		n := cloneJSON(c)
		n.Touch = dropAt(n.Touch, i)
		out = append(out, n)
	}
	if c.Track {
		n := cloneJSON(c)
		n.Track = false
		out = append(out, n)
	}
	for k, sc := range c.Scripts {
		n := cloneJSON(c)
		delete(n.Scripts, k)
		out = append(out, n)
		for j := range sc {
			n2 := cloneJSON(c)
			n2.Scripts[k] = dropAt(n2.Scripts[k], j)
			out = append(out, n2)
		}
	}
	for i := range c.Tasks {
		n := cloneJSON(c)
		n.Tasks = dropAt(n.Tasks, i)
		out = append(out, n)
	}
	for ph := range c.Phases {
		for i := range c.Phases[ph] {
			n := cloneJSON(c)
			n.Phases[ph] = dropAt(n.Phases[ph], i)
			out = append(out, n)
			for j := range c.Phases[ph][i] {
				n2 := cloneJSON(c)
				n2.Phases[ph][i] = dropAt(n2.Phases[ph][i], j)
				out = append(out, n2)
			}
		}
	}
	for i := range c.Pre {
		n := cloneJSON(c)
		n.Pre = dropAt(n.Pre, i)
		out = append(out, n)
	}
	if len(c.Writer) > 0 {
		n := cloneJSON(c)
		n.Writer = nil
		out = append(out, n)
	}
	if c.Policy.Kind != "walk" || c.Policy.SwitchProb != 0.2 || c.Policy.PermuteMaps || c.Policy.StarvePrefix != "" || c.Policy.PreemptProb != 0 {
		n := cloneJSON(c)
		n.Policy = simrt.Policy{Kind: "walk", SwitchProb: 0.2}
		out = append(out, n)
	}
	return out
}

var errScriptedFault = errors.New("scripted controller failure")

type runRec struct {
	start, end time.Duration
	outcome    string
	reconciles int
}

// faultDriver makes a probe follow its script and records restart timing.
type faultDriver struct {
	script []string
	runs   []*runRec
	sim    *simrt.Sim
	out    *Outcome
}

func (fd *faultDriver) hook(p *Probe, where string) error {
	switch {
	case where == "run-start":
		idx := len(fd.runs)
		oc := "OK"
		if idx < len(fd.script) {
			oc = fd.script[idx]
		}
		fd.runs = append(fd.runs, &runRec{start: fd.sim.Now(), outcome: oc})
		cur := fd.runs[idx]
		switch oc {
		case "E":
			cur.end = fd.sim.Now()
			fd.out.fault("controller-run-error")
			return errScriptedFault
		case "P":
			cur.end = fd.sim.Now()
			fd.out.fault("controller-run-panic")
			panic("scripted controller panic")
		}
	case strings.HasPrefix(where, "reconcile"):
		if len(fd.runs) == 0 {
			return nil
		}
		cur := fd.runs[len(fd.runs)-1]
		cur.reconciles++
		switch {
		case cur.outcome == "RE" && cur.reconciles == 1, cur.outcome == "OKF" && cur.reconciles == 2:
			cur.end = fd.sim.Now()
			fd.out.fault("controller-reconcile-error")
			return errScriptedFault
		case cur.outcome == "RP" && cur.reconciles == 1:
			cur.end = fd.sim.Now()
			fd.out.fault("controller-reconcile-panic")
			panic("scripted reconcile panic")
		}
	}
	return nil
}

type scriptedTask struct {
	id     string
	script []string
	starts []time.Duration
	ends   []time.Duration
	sim    *simrt.Sim
	out    *Outcome
}

func (t *scriptedTask) ID() task.ID { return t.id }

func (t *scriptedTask) RunTask(ctx context.Context, _ *zap.Logger, _ struct{}) error {
	n := len(t.starts)
	t.starts = append(t.starts, t.sim.Now())
	simrt.Yield("task.run")
	oc := "OK"
	if n < len(t.script) {
		oc = t.script[n]
	}
	t.ends = append(t.ends, t.sim.Now())
	switch oc {
	case "E":
		t.out.fault("task-error")
		return errScriptedFault
	case "P":
		t.out.fault("task-panic")
		panic("scripted task panic")
	}
	return nil
}

// checkBackoffGrowth: delays after >=5 consecutive failures exceed every first-failure delay of the same run.
func checkBackoffGrowth(what string, first, deep []time.Duration, desc string, out *Outcome) {
	if len(first) == 0 || len(deep) == 0 {
		return
	}
	maxFirst, minDeep := first[0], deep[0]
	for _, g := range first {
		if g > maxFirst {
			maxFirst = g
		}
	}
	for _, g := range deep {
		if g < minDeep {
			minDeep = g
		}
	}
	if minDeep <= maxFirst {
		out.violate("C16/backoff", "backoff-not-growing-or-not-reset:"+what, "%s restart delays do not grow with consecutive failures / reset after a healthy cycle: a delay after >=5 consecutive failures (%v) is not longer than a delay after a first failure (%v)\n%s", what, minDeep, maxFirst, desc)
		return
	}
	out.probe("backoff-growth-compared:" + what)
}

func (c16) Run(t *testing.T, cs Case, trace bool) *Outcome {
	c := cs.(*C16Case)
	if c.Mode == "items" {
		return runItemBackoff(t, "C16", &C09Case{Common: c.Common, Part: "backoff", Script: c.Items, Concurrency: c.Concurrency, Touch: c.Touch, WorkMs: c.WorkMs}, trace)
	}
	out := &Outcome{}
	var acks []Ack
	var ev int64
	st, panics, berr := simrt.Run(t, simrt.Config{Seed: c.Seed, Policy: c.Policy, Trace: trace}, func(s *simrt.Sim) {
		w, err := NewRuntimeWorld("inmem+tap", c.Hist, c.RT, out)
		if err != nil {
			out.HarnessErr = "runtime: " + err.Error()
			return
		}
		ctx, cancel := context.WithCancel(context.Background())
		defer cancel()
		wr := &writer{st: w.Core, acks: &acks, ev: &ev, out: out}
		s.Spawn("pre", func() {
			for _, op := range c.Pre {
				op.SleepMs = 0
				wr.do(ctx, op)
			}
		})
		s.Settle(100000)
		var probes []*Probe
		drivers := map[string]*faultDriver{}
		reconcileSteps := map[string][]int64{}
		isWriter := map[string]bool{}
		for _, n := range c.Writer {
			isWriter[n] = true
		}
		for _, ps := range c.Probes {
			ps := ps
			if isWriter[ps.Name] {
				ps.Outputs = append(ps.Outputs, OutputSpec{Type: TypeC, Kind: "shared"})
			}
			p := NewProbe(ps, w, out)
			probes = append(probes, p)
			fd := &faultDriver{script: c.Scripts[ps.Name], sim: s, out: out}
			drivers[ps.Name] = fd
			name := ps.Name
			if !ps.Q {
				p.fault = func(p *Probe, where string) error {
					if strings.HasPrefix(where, "reconcile") {
						reconcileSteps[name] = append(reconcileSteps[name], s.Step())
					}
					return fd.hook(p, where)
				}
				if isWriter[name] {
					track := c.Track
					p.onReconcile = func(p *Probe, r controller.Runtime) error {
						if track {
							r.StartTrackingOutputs()
						}
						res := NewRes("ns1", TypeC, "out-"+name, "")
						if err := r.Modify(ctx, res, func(x resource.Resource) error {
							SpecOf(x).Val = fmt.Sprintf("%s#%d", name, p.Reconciles)
							return nil
						}); err != nil {
							return err
						}
						if track {
							// the scripted failure strikes between StartTrackingOutputs and CleanupOutputs
							reconcileSteps[name] = append(reconcileSteps[name], s.Step())
							if err := fd.hook(p, "reconcile"); err != nil {
								return err
							}
							return r.CleanupOutputs(ctx, resource.NewMetadata("ns1", TypeC, "", resource.VersionUndefined))
						}
						return nil
					}
					if track {
						p.fault = func(p *Probe, where string) error {
							if strings.HasPrefix(where, "reconcile") {
								return nil // handled inside onReconcile
							}
							return fd.hook(p, where)
						}
					}
				}
			} else {
				p.fault = func(_ *Probe, where string) error {
					if strings.HasPrefix(where, "reconcile") {
						reconcileSteps[name] = append(reconcileSteps[name], s.Step())
					}
					return nil
				}
				if len(fd.script) > 0 {
					p.runHook = func(hctx context.Context) error {
						idx := len(fd.runs)
						oc := "BLOCK"
						if idx < len(fd.script) {
							oc = fd.script[idx]
						}
						cur := &runRec{start: s.Now(), outcome: oc}
						fd.runs = append(fd.runs, cur)
						simrt.Yield("runhook")
						switch oc {
						case "E":
							cur.end = s.Now()
							out.fault("runhook-error")
							return errScriptedFault
						case "P":
							cur.end = s.Now()
							out.fault("runhook-panic")
							panic("scripted run hook panic")
						case "LONG":
							c1 := simrt.Recv(hctx.Done())
							c2 := simrt.Recv(time.After(2 * time.Minute))
							if simrt.Select("runhook.long", false, c1, c2) == 0 {
								return nil
							}
							cur.end = s.Now()
							out.fault("runhook-error-after-healthy-period")
							return errScriptedFault
						}
						simrt.ChanRecv("runhook.block", hctx.Done())
						return nil
					}
				}
			}
			if err := p.Register(); err != nil {
				out.HarnessErr = fmt.Sprintf("register %s: %v", ps.Name, err)
				return
			}
		}
		var tasks []*scriptedTask
		var running []interface{ Stop() }
		for i, sc := range c.Tasks {
			stt := &scriptedTask{id: fmt.Sprintf("task%d", i), script: sc, sim: s, out: out}
			tasks = append(tasks, stt)
			tk := task.New[struct{}](zap.NewNop(), stt, struct{}{})
			s.Spawn(fmt.Sprintf("taskstarter%d", i), func() { tk.Start(ctx) })
			running = append(running, tk)
		}
		w.Start(s, ctx)
		cancelled := false
		if c.Mode == "cancel" || c.CancelToo {
			s.Spawn("canceller", func() {
				simrt.Sleep(time.Duration(c.CancelMs) * time.Millisecond)
				for i := 0; c.CancelToo && i < int(c.Seed%7); i++ {
					simrt.Yield("cancel.delay") // a few scheduling steps into the burst
				}
				simrt.Yield("cancel")
				cancelled = true
				out.fault("cancel:runtime-context")
				cancel()
			})
		}
		for ph, writers := range c.Phases {
			for i, ops := range writers {
				wr := &writer{st: w.Core, acks: &acks, ev: &ev, out: out}
				s.Spawn(fmt.Sprintf("writer%d-%d", ph, i), func() {
					for _, op := range ops {
						wr.do(ctx, op)
					}
				})
			}
			if r := s.Settle(1000000); r != simrt.Quiescent {
				if ps := s.Panics(); len(ps) > 0 {
					out.violate("C16/panic", "panic:"+firstLine(ps[0].Value), "task %s panicked: %s\n%s", ps[0].Task, ps[0].Value, ps[0].Stack)
					return
				}
				out.violate("C16/no-convergence", "no-convergence:"+c.Mode, "after all scripted faults were played the system never goes quiet: %d steps, %v virtual time; live: %v\ncontroller errors: %s", s.Step(), s.Now(), s.Live(), strings.Join(w.ErrorLogs(4), "\n  "))
				return
			}
			if ps := s.Panics(); len(ps) > 0 {
				out.violate("C16/panic", "panic:"+firstLine(ps[0].Value), "an unrecovered panic escaped a runtime task (the process would have crashed): task %s: %s\n%s", ps[0].Task, ps[0].Value, ps[0].Stack)
				return
			}
			if out.HarnessErr != "" {
				return
			}
			if w.RunReturned {
				break
			}
			if cancelled {
				out.violate("C16/shutdown", "run-did-not-return", "Runtime.Run did not return after its context was cancelled (mode %s); live: %v", c.Mode, s.Live())
				return
			}
			if c.Mode == "faults" || c.Mode == "watch-error" {
				// healthy and recovered controllers are current at every quiescent point; in watch-error mode: as long as
				// Run has not returned the watch error, no notification may have been lost silently
				checkProbesCurrent("C16", w, probes, map[string]int{}, ph, out)
				if out.Viol != nil {
					return
				}
			}
		}
		commitsAtReturn := w.RunRetLog
		switch c.Mode {
		case "faults":
			if w.RunReturned {
				out.violate("C16/runtime-stopped", "runtime-stopped", "Runtime.Run returned (%v) although only controllers, hooks and tasks failed", w.RunErr)
				return
			}
			nfaults := 0
			for _, name := range sortedKeys(drivers) {
				fd := drivers[name]
				if len(fd.script) == 0 {
					continue
				}
				nfaults += len(fd.script)
				if len(fd.runs) == 0 || fd.runs[len(fd.runs)-1].end != 0 {
					out.violate("C16/restart", "not-restarted", "controller/hook %s failed in its last recorded run (of %d, script of %d failures) and was never restarted although the system is quiescent\nruns: %s", name, len(fd.runs), len(fd.script), renderRuns(fd.runs))
					return
				}
				var first, deep []time.Duration
				streak := 0
				for k := 0; k+1 < len(fd.runs); k++ {
					cur, next := fd.runs[k], fd.runs[k+1]
					if cur.end == 0 {
						continue
					}
					gap := next.start - cur.end
					if cur.outcome == "OKF" || cur.outcome == "LONG" {
						streak = 0 // a healthy cycle resets the backoff
					}
					streak++
					if streak == 1 {
						first = append(first, gap)
					}
					if streak >= 5 {
						deep = append(deep, gap)
					}
				}
				checkBackoffGrowth("controller", first, deep, name+" runs: "+renderRuns(fd.runs), out)
				if out.Viol != nil {
					return
				}
				// every restart that reaches the reconcile loop is followed by a reconcile
				for k, rr := range fd.runs {
					if k > 0 && rr.outcome != "E" && rr.outcome != "P" && !drivers[name].isHook(c, name) && rr.reconciles == 0 {
						out.violate("C16/restart", "no-reconcile-after-restart", "controller %s was restarted (run %d) but never got a reconcile event in that run\nruns: %s", name, k, renderRuns(fd.runs))
						return
					}
				}
			}
			for _, tk := range tasks {
				if len(tk.starts) < len(tk.script) {
					out.violate("C16/restart", "task-not-restarted", "task %s ran %d times for a script %v", tk.id, len(tk.starts), tk.script)
					return
				}
				var first, deep []time.Duration
				for k := 0; k+1 < len(tk.starts); k++ {
					gap := tk.starts[k+1] - tk.ends[k]
					if k == 0 {
						first = append(first, gap)
					}
					if k >= 4 {
						deep = append(deep, gap)
					}
				}
				checkBackoffGrowth("task", first, deep, fmt.Sprintf("%s starts %v", tk.id, tk.starts), out)
				nfaults += len(tk.script) - 1
			}
			out.Nontrivial = nfaults >= 3
		case "watch-error":
			if !w.RunReturned {
				// legitimate only if the runtime's watches never overran
				overrun := false
				for _, l := range w.ErrorLogs(10) {
					if strings.Contains(l, "overrun") {
						overrun = true
					}
				}
				out.probe("no-overrun-this-run")
				_ = overrun
			} else {
				out.probe("run-returned-on-watch-error")
				out.Nontrivial = true
				if w.RunErr == nil && !cancelled {
					out.violate("C16/watch-error", "watch-error-swallowed", "Runtime.Run returned nil although its watch failed (history overrun)")
					return
				}
				for name, steps := range reconcileSteps {
					for _, stp := range steps {
						if stp > w.RunRetStep {
							out.violate("C16/watch-error", "reconcile-after-run-returned", "controller %s started a reconcile at step %d, after Runtime.Run had returned the watch error at step %d", name, stp, w.RunRetStep)
							return
						}
					}
				}
			}
		}
		// shutdown: cancel (if not yet), everything exits, nothing is written afterwards
		for _, tk := range running {
			_ = tk
		}
		cancel()
		if r := s.Settle(1000000); r != simrt.Quiescent {
			out.violate("C16/shutdown", "shutdown-not-quiescent", "after cancellation the system does not go quiet: live %v", s.Live())
			return
		}
		if !w.RunReturned {
			out.violate("C16/shutdown", "run-did-not-return", "Runtime.Run did not return after its context was cancelled; live: %v", s.Live())
			return
		}
		if c.Mode == "cancel" {
			out.Nontrivial = len(w.Log) > 2
			if w.RunErr != nil {
				out.violate("C16/shutdown", "cancel-returned-error", "Runtime.Run returned %v on plain cancellation", w.RunErr)
				return
			}
		}
		if n := s.LiveCount(); n != 0 {
			out.violate("C16/shutdown", "leaked-tasks", "after Run returned and everything settled %d goroutines of the runtime / controllers / watches are still alive: %v", n, s.Live())
			return
		}
		if commitsAtReturn == 0 {
			commitsAtReturn = w.RunRetLog
		}
		for i := w.RunRetLog; i < len(w.Log); i++ {
			cm := w.Log[i]
			if strings.HasPrefix(cm.Task, "rt") && cm.Step > w.RunRetStep {
				out.violate("C16/shutdown", "write-after-run-returned", "commit %d (%s %s/%s by task %s at step %d) was issued after Runtime.Run had returned at step %d", i, cm.Kind, cm.Type, cm.ID, cm.Task, cm.Step, w.RunRetStep)
				return
			}
		}
		out.probe("shutdown-clean")
		if trace {
			out.Trace = s.Trace()
			for _, name := range sortedKeys(drivers) {
				out.Notes = append(out.Notes, name+" runs: "+renderRuns(drivers[name].runs))
			}
		}
	})
	out.finish(st, panics, berr, true)
	return out
}

func (fd *faultDriver) isHook(c *C16Case, name string) bool {
	for _, p := range c.Probes {
		if p.Name == name {
			return p.Q
		}
	}
	return false
}

func renderRuns(runs []*runRec) string {
	var parts []string
	for i, r := range runs {
		parts = append(parts, fmt.Sprintf("#%d[%s start=%v end=%v reconciles=%d]", i, r.outcome, r.start, r.end, r.reconciles))
	}
	return strings.Join(parts, " ")
}
