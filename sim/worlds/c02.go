package worlds

import (
	"context"
	"encoding/json"
	"fmt"
	"sort"
	"strings"
	"testing"

	"github.com/cosi-project/runtime/pkg/controller/runtime/zzverif/simrt"
	"github.com/cosi-project/runtime/pkg/resource"
	"github.com/cosi-project/runtime/pkg/state"
)

// ---------------------------------------------------------------------------
// C02 — watch streams are exact ordered change logs or fail loudly (DESIGN §7 C02)

// C02Case is a C02 run.
type C02Case struct {
	Common
	Variant  string      `json:"variant"`
	Hist     HistCfg     `json:"hist"`
	Writers  [][]WriteOp `json:"writers"`
	Watchers []WatchSpec `json:"watchers"`
	// StoreFaults: 1-based indices of backing-store writes that are rejected (tapped variants): the failed write must
	// be invisible to the state and to every watcher
	StoreFaults []int `json:"store_faults,omitempty"`
}

type c02 struct{}

func init() { register(c02{}) }

func (c02) ID() string { return "C02" }

func (c02) Rule() string {
	return "case = store variant (with/without commit tap) + history config (initial 1-8, max<=16, gap 0-3 or defaults) + 1-3 writers (create/update/destroy bursts over <=3 ids, 2 kinds) + 1-4 watchers (single/kind/aggregated, bootstrap on/off, started at a random virtual time, consumer prompt/slow/stalled/cancelling) + schedule policy; non-trivial = a watcher was established while writes were in flight (>=1 commit before and >=1 after establishment) and delivered >=1 event; distinct = distinct scheduler trace hash"
}

func (c02) Components() (real, stub []string) {
	return []string{"pkg/state/impl/inmem (collection history ring, watch goroutines, cond)", "pkg/state/impl/namespaced", "pkg/state", "pkg/resource"},
		[]string{"Go scheduler choice (simrt)", "OS clock (synctest)"}
}

func (c02) Decode(b []byte) (Case, error) {
	var c C02Case
	err := json.Unmarshal(b, &c)
	return &c, err
}

func genHist(r *simrt.RNG) HistCfg {
	if r.Bool(0.15) {
		return HistCfg{} // defaults (100/100/5)
	}
	h := HistCfg{Initial: 1 + r.Intn(8)}
	h.Max = h.Initial
	if r.Bool(0.6) {
		h.Max = h.Initial + r.Intn(17-h.Initial)
	}
	if h.Initial > 1 {
		h.Gap = r.Intn(min(4, h.Initial))
	}
	return h
}

func genWatchSpec(r *simrt.RNG, types []string, nids int) WatchSpec {
	w := WatchSpec{Type: types[r.Intn(len(types))]}
	switch r.Pick([]int{3, 4, 3}) {
	case 0:
		w.Kind = "single"
		w.ID = fmt.Sprintf("r%d", r.Intn(nids))
	case 1:
		w.Kind = "kind"
	case 2:
		w.Kind = "agg"
	}
	if w.Kind != "single" {
		w.Bootstrap = r.Bool(0.6)
		if !w.Bootstrap {
			w.BootstrapBookmark = r.Bool(0.3)
		}
	}
	if r.Bool(0.7) {
		w.StartMs = r.Intn(4000)
	}
	w.ChanCap = []int{0, 0, 1, 4}[r.Intn(4)]
	switch r.Pick([]int{5, 3, 3, 2}) {
	case 0: // prompt
	case 1:
		w.DelayMs = 1 + r.Intn(1500)
	case 2:
		w.StallAfter = 1 + r.Intn(4)
		w.StallMs = 2000 + r.Intn(20000)
	case 3:
		w.CancelAfter = 1 + r.Intn(6)
	}
	return w
}

func (c02) Gen(seed uint64, tier string) Case {
	r := simrt.NewRNG(seed)
	c := &C02Case{Common: Common{Prop: "C02", Seed: seed, Tier: tier}}
	c.Variant = []string{"inmem+tap", "inmem+tap", "namespaced+tap", "inmem"}[r.Intn(4)]
	c.Hist = genHist(r)
	types := []string{TypeA}
	if r.Bool(0.3) {
		types = []string{TypeA, TypeB}
	}
	nids := 1 + r.Intn(3)
	nw := 1 + r.Intn(3)
	maxOps := 14
	if tier == "thorough" {
		maxOps = 28
	}
	uniq := 0
	var prefixes []string
	for i := 0; i < nw; i++ {
		c.Writers = append(c.Writers, genWriteOps(r, i, 3+r.Intn(maxOps), types, nids, &uniq, r.Bool(0.5)))
		prefixes = append(prefixes, fmt.Sprintf("writer%d", i))
	}
	nwatch := 1 + r.Intn(4)
	for i := 0; i < nwatch; i++ {
		c.Watchers = append(c.Watchers, genWatchSpec(r, types, nids))
		prefixes = append(prefixes, fmt.Sprintf("watcher%d", i))
	}
	if strings.Contains(c.Variant, "+tap") && r.Bool(0.25) {
		for i := 0; i < 1+r.Intn(3); i++ {
			c.StoreFaults = append(c.StoreFaults, 1+r.Intn(12))
		}
	}
	c.Policy = genPolicy(r, prefixes)
	return c
}

func (c02) Shrink(cs Case) []Case {
	c := cs.(*C02Case)
	var out []Case
	if len(c.Watchers) > 1 {
		for i := range c.Watchers {
			n := cloneJSON(c)
			n.Watchers = dropAt(n.Watchers, i)
			out = append(out, n)
		}
	}
	if len(c.Writers) > 1 {
		for i := range c.Writers {
			n := cloneJSON(c)
			n.Writers = dropAt(n.Writers, i)
			out = append(out, n)
		}
	}
	for i := range c.Writers {
		// halves first, then single ops
		if l := len(c.Writers[i]); l > 3 {
			n := cloneJSON(c)
			n.Writers[i] = n.Writers[i][:l/2]
			out = append(out, n)
			n2 := cloneJSON(c)
			n2.Writers[i] = n2.Writers[i][l/2:]
			out = append(out, n2)
		}
		for j := range c.Writers[i] {
			n := cloneJSON(c)
			n.Writers[i] = dropAt(n.Writers[i], j)
			out = append(out, n)
		}
	}
	for i, w := range c.Watchers {
		if w.DelayMs != 0 || w.StallMs != 0 || w.CancelAfter != 0 || w.ChanCap != 0 {
			n := cloneJSON(c)
			n.Watchers[i].DelayMs, n.Watchers[i].StallMs, n.Watchers[i].StallAfter, n.Watchers[i].CancelAfter, n.Watchers[i].ChanCap = 0, 0, 0, 0, 0
			out = append(out, n)
		}
		if w.StartMs != 0 {
			n := cloneJSON(c)
			n.Watchers[i].StartMs = 0
			out = append(out, n)
		}
	}
	for i := range c.Writers {
		for j, op := range c.Writers[i] {
			if op.SleepMs != 0 {
				n := cloneJSON(c)
				n.Writers[i][j].SleepMs = 0
				out = append(out, n)
			}
		}
	}
	if c.Policy.Kind != "walk" || c.Policy.SwitchProb != 0.2 || c.Policy.PermuteMaps || c.Policy.StarvePrefix != "" || c.Policy.PreemptProb != 0 {
		n := cloneJSON(c)
		n.Policy = simrt.Policy{Kind: "walk", SwitchProb: 0.2}
		out = append(out, n)
	}
	return out
}

// collectionLog filters the tap log to one collection.
func collectionLog(log []Commit, ns, typ string) []Commit {
	var out []Commit
	for _, c := range log {
		if c.NS == ns && c.Type == typ {
			out = append(out, c)
		}
	}
	return out
}

// expectedEvent is what a commit must look like to a watcher.
type expectedEvent struct {
	Type   string
	Snap   Snap
	Old    Snap
	HasOld bool
	LogIdx int
}

// expectedFrom builds the expected event sequence for commits log[p:], given the state after log[:p].
func expectedFrom(log []Commit, p int, id string) (snapshot map[string]Snap, evs []expectedEvent) {
	st := map[string]Snap{}
	for _, c := range log[:p] {
		if c.Kind == "put" {
			st[c.ID] = c.Snap
		} else {
			delete(st, c.ID)
		}
	}
	snapshot = map[string]Snap{}
	for k, v := range st {
		snapshot[k] = v
	}
	for i := p; i < len(log); i++ {
		c := log[i]
		prev, existed := st[c.ID]
		var e expectedEvent
		e.LogIdx = i
		if c.Kind == "put" {
			if existed {
				e = expectedEvent{Type: "Updated", Snap: c.Snap, Old: prev, HasOld: true, LogIdx: i}
			} else {
				e = expectedEvent{Type: "Created", Snap: c.Snap, LogIdx: i}
			}
			st[c.ID] = c.Snap
		} else {
			e = expectedEvent{Type: "Destroyed", Snap: prev, LogIdx: i}
			delete(st, c.ID)
		}
		if id == "" || c.ID == id {
			evs = append(evs, e)
		}
	}
	return snapshot, evs
}

// splitStream separates the snapshot section, data events and a terminal error.
type streamParts struct {
	snapshot        map[string]Snap // nil if unknown
	snapshotKnown   bool
	data            []EvRec
	errored         bool
	problem         string
	sawBootstrapped bool
}

func splitStream(rec *WatchRec) streamParts {
	var sp streamParts
	evs := rec.Events
	i := 0
	spec := rec.Spec
	switch {
	case spec.Kind == "single" && spec.Tail == 0:
		if len(evs) == 0 {
			return sp
		}
		first := evs[0]
		sp.snapshot = map[string]Snap{}
		switch first.Type {
		case "Created":
			sp.snapshot[first.Snap.ID] = first.Snap
			if first.Snap.ID != spec.ID {
				sp.problem = fmt.Sprintf("initial event is for %q, watched %q", first.Snap.ID, spec.ID)
			}
		case "Destroyed":
			// tombstone: resource absent
		case "Errored":
			sp.errored = true
			return sp
		default:
			sp.problem = "initial event of a single-resource watch is " + first.String()
		}
		sp.snapshotKnown = true
		i = 1
	case spec.Bootstrap:
		sp.snapshot = map[string]Snap{}
		for i < len(evs) && evs[i].Type == "Created" && !sp.sawBootstrapped {
			if _, dup := sp.snapshot[evs[i].Snap.ID]; dup {
				sp.problem = "bootstrap contents list " + evs[i].Snap.ID + " twice"
			}
			sp.snapshot[evs[i].Snap.ID] = evs[i].Snap
			i++
		}
		if i < len(evs) && evs[i].Type == "Bootstrapped" {
			sp.sawBootstrapped = true
			sp.snapshotKnown = true
			i++
		} else if i < len(evs) && evs[i].Type != "Errored" {
			sp.problem = "bootstrap section interrupted by " + evs[i].String()
		}
	case spec.BootstrapBookmark:
		if len(evs) > 0 && evs[0].Type == "Noop" {
			i = 1
		} else if len(evs) > 0 && evs[0].Type != "Errored" {
			sp.problem = "bootstrap bookmark (Noop) missing, first event " + evs[0].String()
		}
	}
	for ; i < len(evs); i++ {
		switch evs[i].Type {
		case "Created", "Updated", "Destroyed":
			if sp.errored {
				sp.problem = "data event after Errored"
			}
			sp.data = append(sp.data, evs[i])
		case "Errored":
			if sp.errored {
				sp.problem = "Errored delivered twice"
			}
			sp.errored = true
		default:
			sp.problem = "unexpected " + evs[i].Type + " event inside the stream"
		}
	}
	return sp
}

func snapsEqual(a, b map[string]Snap) bool {
	if len(a) != len(b) {
		return false
	}
	for k, v := range a {
		if b[k] != v {
			return false
		}
	}
	return true
}

func renderSnapMap(m map[string]Snap) string {
	var parts []string
	for _, k := range sortedKeys(m) {
		parts = append(parts, fmt.Sprintf("%s@%s=%s", k, m[k].Version, m[k].Val))
	}
	return "{" + strings.Join(parts, " ") + "}"
}

func effInitial(h HistCfg) int {
	if h.Initial > 0 {
		return h.Initial
	}
	return 100
}

// checkStreamAgainstLog is the tap-based exactness oracle (O1-O5 of DESIGN §7 C02).
// live: the watcher was still consuming at quiescence (must have everything).
func checkStreamAgainstLog(prop string, rec *WatchRec, log []Commit, live bool, h HistCfg, out *Outcome) {
	if rec.Err != nil || !rec.established {
		return
	}
	sp := splitStream(rec)
	if sp.problem != "" {
		out.violate(prop+"/stream-shape", "shape", "watcher %s (%+v): %s\nevents: %s", rec.Name, rec.Spec, sp.problem, renderEvents(rec.Events))
		return
	}
	id := ""
	if rec.Spec.Kind == "single" {
		id = rec.Spec.ID
	}
	var why []string
	okP := -1
	var matched []expectedEvent
	for p := rec.InvokeCommit; p <= rec.RetCommit && p <= len(log); p++ {
		snapshot, exp := expectedFrom(log, p, id)
		if sp.snapshotKnown {
			want := snapshot
			if id != "" {
				want = map[string]Snap{}
				if s, ok := snapshot[id]; ok {
					want[id] = s
				}
			}
			if !snapsEqual(want, sp.snapshot) {
				why = append(why, fmt.Sprintf("p=%d: snapshot %s != store contents %s", p, renderSnapMap(sp.snapshot), renderSnapMap(want)))
				continue
			}
		}
		if len(sp.data) > len(exp) {
			why = append(why, fmt.Sprintf("p=%d: %d events delivered, only %d commits followed", p, len(sp.data), len(exp)))
			continue
		}
		bad := ""
		for j, e := range sp.data {
			x := exp[j]
			if e.Type != x.Type || e.Snap != x.Snap || e.HasOld != x.HasOld || (x.HasOld && e.Old != x.Old) {
				bad = fmt.Sprintf("p=%d: event %d is %s, commit log says %s(%s@%s val=%s)", p, j, e.String(), x.Type, x.Snap.ID, x.Snap.Version, x.Snap.Val)
				break
			}
		}
		if bad != "" {
			why = append(why, bad)
			continue
		}
		if live && !sp.errored && len(sp.data) != len(exp) {
			why = append(why, fmt.Sprintf("p=%d: at quiescence the live watcher has %d events, %d commits followed its establishment (missing from %s)", p, len(sp.data), len(exp), describeExp(exp[len(sp.data):])))
			continue
		}
		okP = p
		matched = exp
		break
	}
	if okP < 0 {
		out.violate(prop+"/stream-exactness", "stream-mismatch:"+rec.Spec.Kind, "watcher %s (%+v, established between commit %d and %d of %d) is not an exact change log:\n  %s\nevents: %s\nlog: %s",
			rec.Name, rec.Spec, rec.InvokeCommit, rec.RetCommit, len(log), strings.Join(why, "\n  "), renderEvents(rec.Events), renderLog(log))
		return
	}
	// lag accounting (O5)
	consumedThrough := okP
	maxLag := 0
	// walk data events in order with their AtCommit stamps
	di := 0
	for _, e := range rec.Events {
		isData := false
		if di < len(sp.data) && e.AtEv == sp.data[di].AtEv {
			isData = true
		}
		if isData {
			if lag := e.AtCommit - consumedThrough; lag > maxLag {
				maxLag = lag
			}
			consumedThrough = matched[di].LogIdx + 1
			di++
		} else if e.Type == "Errored" {
			if lag := e.AtCommit - consumedThrough; lag > maxLag {
				maxLag = lag
			}
		}
	}
	rec.MaxLag = maxLag
	if sp.errored {
		if maxLag <= effInitial(h) {
			out.violate(prop+"/spurious-overrun", "errored-without-lag", "watcher %s (%+v) got a terminal Errored although it never lagged by more than the initial capacity %d (max lag %d commits)\nevents: %s",
				rec.Name, rec.Spec, effInitial(h), maxLag, renderEvents(rec.Events))
		}
		out.probe("errored-legit")
		out.fault("history-overrun-errored")
	} else if maxLag > 0 {
		out.probeN("lagged-no-error", 1)
	}
}

func describeExp(exp []expectedEvent) string {
	var parts []string
	for i, e := range exp {
		if i >= 4 {
			parts = append(parts, "…")
			break
		}
		parts = append(parts, fmt.Sprintf("%s(%s@%s)", e.Type, e.Snap.ID, e.Snap.Version))
	}
	return strings.Join(parts, ",")
}

func renderEvents(evs []EvRec) string {
	var parts []string
	for _, e := range evs {
		parts = append(parts, e.String())
	}
	return "[" + strings.Join(parts, ", ") + "]"
}

func renderLog(log []Commit) string {
	var parts []string
	for _, c := range log {
		if c.Kind == "put" {
			parts = append(parts, fmt.Sprintf("%d:put(%s@%s val=%s)", c.Seq, c.ID, c.Snap.Version, c.Snap.Val))
		} else {
			parts = append(parts, fmt.Sprintf("%d:destroy(%s)", c.Seq, c.ID))
		}
	}
	return "[" + strings.Join(parts, ", ") + "]"
}

// checkStreamBlackBox checks what can be said without the tap (O1, O2, O3).
func checkStreamBlackBox(prop string, rec *WatchRec, acks []Ack, final map[string]Snap, live bool, out *Outcome) {
	if rec.Err != nil || !rec.established {
		return
	}
	sp := splitStream(rec)
	if sp.problem != "" {
		out.violate(prop+"/stream-shape", "shape", "watcher %s (%+v): %s\nevents: %s", rec.Name, rec.Spec, sp.problem, renderEvents(rec.Events))
		return
	}
	// O1: per-ID chains
	cur := map[string]Snap{}
	known := map[string]bool{} // ids whose current value is known to the watcher
	if sp.snapshotKnown {
		for k, v := range sp.snapshot {
			cur[k] = v
		}
	}
	fail := func(format string, args ...any) {
		out.violate(prop+"/stream-chain", "chain:"+rec.Spec.Kind, "watcher %s (%+v): %s\nevents: %s", rec.Name, rec.Spec, fmt.Sprintf(format, args...), renderEvents(rec.Events))
	}
	seen := map[string]bool{}
	for j, e := range sp.data {
		if e.Snap.Type != rec.Spec.Type || (rec.Spec.Kind == "single" && e.Snap.ID != rec.Spec.ID) {
			fail("event %d leaks %s/%s into a watch of %s/%s", j, e.Snap.Type, e.Snap.ID, rec.Spec.Type, rec.Spec.ID)
			return
		}
		key := e.Type + "|" + e.Snap.ID + "|" + e.Snap.Version + "|" + e.Snap.Val
		if e.Type != "Destroyed" && seen[key] {
			fail("event %d (%s) delivered twice", j, e.String())
			return
		}
		seen[key] = true
		prev, have := cur[e.Snap.ID]
		certain := sp.snapshotKnown || known[e.Snap.ID]
		switch e.Type {
		case "Created":
			if have && certain {
				fail("event %d: Created for %s which the stream says exists (@%s)", j, e.Snap.ID, prev.Version)
				return
			}
			if e.Snap.Version != "1" {
				fail("event %d: Created with version %s", j, e.Snap.Version)
				return
			}
			cur[e.Snap.ID] = e.Snap
		case "Updated":
			if !e.HasOld {
				fail("event %d: Updated without old value", j)
				return
			}
			if verNum(e.Snap.Version) != verNum(e.Old.Version)+1 {
				fail("event %d: Updated from version %s to %s", j, e.Old.Version, e.Snap.Version)
				return
			}
			if certain && (!have || prev != e.Old) {
				fail("event %d: Updated.old (%s@%s val=%s) is not the previously delivered value (%v@%s val=%s)", j, e.Old.ID, e.Old.Version, e.Old.Val, have, prev.Version, prev.Val)
				return
			}
			cur[e.Snap.ID] = e.Snap
		case "Destroyed":
			if certain && (!have || prev != e.Snap) {
				fail("event %d: Destroyed value (%s@%s) is not the previously delivered value (%v@%s)", j, e.Snap.ID, e.Snap.Version, have, prev.Version)
				return
			}
			delete(cur, e.Snap.ID)
		}
		known[e.Snap.ID] = true
	}
	// O2: replay equals the store's contents at quiescence
	if live && !sp.errored && sp.snapshotKnown {
		want := map[string]Snap{}
		for k, v := range final {
			if v.Type == rec.Spec.Type && (rec.Spec.Kind != "single" || k == rec.Spec.ID) {
				want[k] = v
			}
		}
		if !snapsEqual(cur, want) {
			out.violate(prop+"/replay", "replay:"+rec.Spec.Kind, "watcher %s (%+v): replaying its events over its snapshot gives %s, the store holds %s\nevents: %s",
				rec.Name, rec.Spec, renderSnapMap(cur), renderSnapMap(want), renderEvents(rec.Events))
			return
		}
	}
	// O3: exactly-once relative to acknowledged writes
	for _, a := range acks {
		if a.Type != rec.Spec.Type || (rec.Spec.Kind == "single" && a.ID != rec.Spec.ID) {
			continue
		}
		count := 0
		for _, e := range sp.data {
			switch a.Kind {
			case "create":
				if e.Type == "Created" && e.Snap.ID == a.ID && e.Snap.Val == a.Val {
					count++
				}
			case "update":
				if e.Type == "Updated" && e.Snap.ID == a.ID && e.Snap.Val == a.Val && e.Snap.Version == a.Version {
					count++
				}
			}
		}
		if a.Kind == "destroy" {
			continue
		}
		switch {
		case a.Invoke > rec.RetEv && live && !sp.errored:
			if count != 1 {
				out.violate(prop+"/exactly-once", "ack-count:"+rec.Spec.Kind, "watcher %s (%+v): write %s %s@%s val=%s acknowledged after the watch was established appears %d times\nevents: %s",
					rec.Name, rec.Spec, a.Kind, a.ID, a.Version, a.Val, count, renderEvents(rec.Events))
				return
			}
		case a.Ret < rec.InvokeEv:
			if count != 0 {
				out.violate(prop+"/exactly-once", "old-write-as-event:"+rec.Spec.Kind, "watcher %s (%+v): write %s %s@%s val=%s acknowledged before the watch call appears as an event\nevents: %s",
					rec.Name, rec.Spec, a.Kind, a.ID, a.Version, a.Val, renderEvents(rec.Events))
				return
			}
		default:
			if count > 1 {
				out.violate(prop+"/exactly-once", "dup:"+rec.Spec.Kind, "watcher %s: write %s %s val=%s appears %d times", rec.Name, a.Kind, a.ID, a.Val, count)
				return
			}
		}
	}
}

func finalContents(st state.CoreState, nss, types []string) (map[string]map[string]Snap, error) {
	res := map[string]map[string]Snap{}
	for _, ns := range nss {
		for _, typ := range types {
			l, err := st.List(context.Background(), resource.NewMetadata(ns, typ, "", resource.VersionUndefined))
			if err != nil {
				return nil, err
			}
			m := map[string]Snap{}
			for _, r := range l.Items {
				m[r.Metadata().ID()] = SnapOf(r)
			}
			res[ns+"/"+typ] = m
		}
	}
	return res, nil
}

func (c02) Run(t *testing.T, cs Case, trace bool) *Outcome {
	c := cs.(*C02Case)
	out := &Outcome{}
	var acks []Ack
	var ev int64
	recs := make([]*WatchRec, len(c.Watchers))
	hasTap := strings.HasSuffix(c.Variant, "+tap")
	st, panics, berr := simrt.Run(t, simrt.Config{Seed: c.Seed, Policy: c.Policy, Trace: trace}, func(s *simrt.Sim) {
		w := NewStoreWorld(c.Variant, c.Hist)
		if len(c.StoreFaults) > 0 {
			nwrites := 0
			w.failWrite = func(kind, typ, id string) error {
				nwrites++
				for _, f := range c.StoreFaults {
					if f == nwrites {
						out.fault("backing-store-write-rejected:" + kind)
						return errStoreFault
					}
				}
				return nil
			}
		}
		ctx, cancel := context.WithCancel(context.Background())
		defer cancel()
		env := &watchEnv{prop: "C02", st: w.Core, ev: &ev, out: out, commits: func(ns, typ string) int {
			n := 0
			for _, cm := range w.Log {
				if cm.NS == ns && cm.Type == typ {
					n++
				}
			}
			return n
		}}
		for i, ops := range c.Writers {
			wr := &writer{st: w.Core, acks: &acks, ev: &ev, out: out}
			s.Spawn(fmt.Sprintf("writer%d", i), func() {
				for _, op := range ops {
					wr.do(ctx, op)
				}
			})
		}
		for i, spec := range c.Watchers {
			recs[i] = &WatchRec{Spec: spec, Name: fmt.Sprintf("watcher%d", i)}
			rec := recs[i]
			s.Spawn(rec.Name, func() { runWatcher(ctx, env, rec, nil, nil) })
		}
		if r := s.Settle(400000); r != simrt.Quiescent {
			out.HarnessErr = fmt.Sprintf("C02 run did not become quiescent: %v live=%v", r, s.Live())
			return
		}
		if ps := s.Panics(); len(ps) > 0 {
			out.violate("C02/panic", "panic:"+firstLine(ps[0].Value), "task %s panicked: %s\n%s", ps[0].Task, ps[0].Value, ps[0].Stack)
			return
		}
		final, err := finalContents(w.Core, []string{"ns1"}, []string{TypeA, TypeB})
		if err != nil {
			out.HarnessErr = "final list: " + err.Error()
			return
		}
		for _, rec := range recs {
			live := !rec.Done
			if rec.Err != nil {
				out.violate("C02/watch-call", "watch-error", "%s: Watch call failed: %v", rec.Name, rec.Err)
				continue
			}
			if hasTap {
				log := collectionLog(w.Log, rec.Spec.ns(), rec.Spec.Type)
				checkStreamAgainstLog("C02", rec, log, live, c.Hist, out)
				if rec.established && rec.InvokeCommit > 0 && rec.RetCommit < len(log) && len(rec.Events) > 0 {
					out.Nontrivial = true
				}
			}
			checkStreamBlackBox("C02", rec, acks, final[rec.Spec.ns()+"/"+rec.Spec.Type], live, out)
			if !hasTap && rec.established && len(rec.Events) > 1 {
				out.Nontrivial = true
			}
		}
		if hasTap {
			out.probeN("commits", len(w.Log))
			cap0 := effInitial(c.Hist)
			for _, typ := range []string{TypeA, TypeB} {
				n := len(collectionLog(w.Log, "ns1", typ))
				if n > cap0 {
					out.probe("ring-wrapped-or-grew")
				}
				if c.Hist.Max > c.Hist.Initial && n > c.Hist.Initial {
					out.probe("capacity-grew")
				}
			}
		}
		if trace {
			for _, rec := range recs {
				out.Notes = append(out.Notes, fmt.Sprintf("%s %+v est=[%d,%d] maxlag=%d done=%v: %s", rec.Name, rec.Spec, rec.InvokeCommit, rec.RetCommit, rec.MaxLag, rec.Done, renderEvents(rec.Events)))
			}
			out.Notes = append(out.Notes, "log: "+renderLog(w.Log))
		}
		cancel()
		s.Settle(100000)
		if n := s.LiveCount(); n != 0 {
			out.probe("leaked-after-cancel")
			if trace {
				out.Notes = append(out.Notes, fmt.Sprintf("leaked: %v", s.Live()))
			}
		}
		if trace {
			out.Trace = s.Trace()
		}
	})
	out.finish(st, panics, berr, true)
	if len(panics) > 0 {
		out.violate("C02/panic", "panic:"+firstLine(panics[0].Value), "task %s panicked: %s\n%s", panics[0].Task, panics[0].Value, panics[0].Stack)
	}
	sort.Slice(acks, func(i, j int) bool { return acks[i].Invoke < acks[j].Invoke })
	return out
}
