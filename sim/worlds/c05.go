package worlds

import (
	"context"
	"encoding/json"
	"fmt"
	"testing"
	"time"

	"github.com/cosi-project/runtime/pkg/controller/runtime/zzverif/simrt"
)

// ---------------------------------------------------------------------------
// C05 — no lost wake-ups (DESIGN §7 C05)

// C05Case is a C05 run.
type C05Case struct {
	Common
	Variant string        `json:"variant"`
	RT      RuntimeOpts   `json:"rt"`
	Pre     []WriteOp     `json:"pre"`    // writes before Run
	Probes  []ProbeSpec   `json:"probes"` // controllers
	Phases  [][][]WriteOp `json:"phases"` // per phase: per writer: ops
}

type c05 struct{}

func init() { register(c05{}) }

func (c05) ID() string { return "C05" }

func (c05) Rule() string {
	return "case = tapped store + controller runtime (cached kinds on/off, metrics on/off) + 1-4 probe controllers (plain: weak/strong/destroy-ready inputs by kind or id, inputs added later with UpdateInputs; queue: primary/mapped/mapped-destroy-ready inputs, concurrency 1-3), registered before or after Run, each reconcile reading its inputs through the runtime API and then 'working' for a virtual duration + resources written before Run + 3 phases of 1-3 external writers issuing bursts of create/update/label/finalizer/teardown/destroy + schedule policy (incl. starving the delivery goroutines, map-order permutation); the oracle runs at the quiescent point after each phase; non-trivial = >=1 reconcile overlapped with external commits and >=2 quiescent points were checked; distinct = distinct scheduler trace hash"
}

func (c05) Components() (real, stub []string) {
	return []string{"pkg/controller/runtime (Run, watch multiplexing, dedup/deliver goroutines)", "internal/rruntime, internal/qruntime (+queue), internal/reduced, internal/dependency, internal/cache, internal/controllerstate", "pkg/state/impl/inmem", "pkg/state (wrap, owned)"},
		[]string{"Go scheduler choice (simrt)", "OS clock (synctest)", "zap logger (Nop)", "controller bodies (harness probes)"}
}

func (c05) Decode(b []byte) (Case, error) {
	var c C05Case
	err := json.Unmarshal(b, &c)
	return &c, err
}

func genProbe(r *simrt.RNG, i int, nids int) ProbeSpec {
	p := ProbeSpec{Name: fmt.Sprintf("probe%d", i), RegisterMs: -1}
	if r.Bool(0.35) {
		p.RegisterMs = r.Intn(4000)
	}
	if r.Bool(0.5) {
		p.WorkMs = 1 + r.Intn(3000)
	}
	id := func() string {
		if r.Bool(0.3) {
			return fmt.Sprintf("r%d", r.Intn(nids))
		}
		return ""
	}
	if r.Bool(0.45) {
		p.Q = true
		p.Concurrency = 1 + r.Intn(3)
		p.Inputs = append(p.Inputs, InputSpec{Type: TypeA, Kind: "qprimary", ID: ""})
		switch r.Intn(4) {
		case 0:
		case 1:
			p.Inputs = append(p.Inputs, InputSpec{Type: TypeB, Kind: "qmapped"})
		case 2:
			p.Inputs = append(p.Inputs, InputSpec{Type: TypeB, Kind: "qmappeddr"})
		case 3:
			p.Inputs = append(p.Inputs, InputSpec{Type: TypeB, Kind: "qmapped"}, InputSpec{Type: TypeC, Kind: "qmappeddr"})
		}
		return p
	}
	kinds := []string{"weak", "strong", "destroyready"}
	p.Inputs = append(p.Inputs, InputSpec{Type: TypeA, Kind: kinds[r.Pick([]int{3, 2, 2})], ID: id()})
	if r.Bool(0.5) {
		p.Inputs = append(p.Inputs, InputSpec{Type: TypeB, Kind: kinds[r.Pick([]int{3, 2, 2})], ID: id()})
	}
	if r.Bool(0.3) {
		// overlapping inputs: the same type once by kind and once by id, with different input kinds (each input keeps
		// its own notification rule)
		first := p.Inputs[0]
		second := InputSpec{Type: TypeA, ID: ""}
		if first.ID == "" {
			second.ID = fmt.Sprintf("r%d", r.Intn(nids))
		}
		for second.Kind == "" || second.Kind == first.Kind {
			second.Kind = kinds[r.Intn(3)]
		}
		p.Inputs = append(p.Inputs, second)
	}
	switch r.Pick([]int{5, 3, 2}) {
	case 1:
		p.MoreAt = 1 + r.Intn(3)
		p.More = []InputSpec{{Type: TypeC, Kind: kinds[r.Pick([]int{3, 2, 1})], ID: id()}}
	case 2:
		// re-declare the first input with another kind later on
		p.MoreAt = 1 + r.Intn(3)
		for p.KindChange == "" || p.KindChange == p.Inputs[0].Kind {
			p.KindChange = kinds[r.Intn(3)]
		}
	}
	return p
}

func (c05) Gen(seed uint64, tier string) Case {
	r := simrt.NewRNG(seed)
	c := &C05Case{Common: Common{Prop: "C05", Seed: seed, Tier: tier}}
	c.Variant = "inmem+tap"
	if r.Bool(0.4) {
		for _, t := range []string{TypeA, TypeB, TypeC} {
			if r.Bool(0.5) {
				c.RT.Cached = append(c.RT.Cached, t)
			}
		}
	}
	c.RT.Metrics = r.Bool(0.3)
	if r.Bool(0.25) {
		c.RT.BatchMs = []int{1, 50, 500}[r.Intn(3)]
	}
	nids := 1 + r.Intn(3)
	uniq := 0
	types := []string{TypeA, TypeB, TypeC}
	c.Pre = genWriteOps(r, 8, r.Intn(6), types, nids, &uniq, true)
	np := 1 + r.Intn(4)
	prefixes := []string{"rt"}
	if r.Bool(0.25) {
		// a crowd of controllers on one kind (by kind and by id), several registered while the runtime is running
		np = 4 + r.Intn(4)
		for i := 0; i < np; i++ {
			p := ProbeSpec{Name: fmt.Sprintf("probe%d", i), RegisterMs: -1}
			in := InputSpec{Type: TypeA, Kind: []string{"weak", "strong"}[r.Intn(2)]}
			if r.Bool(0.3) {
				in.ID = fmt.Sprintf("r%d", r.Intn(nids))
			}
			p.Inputs = []InputSpec{in}
			if r.Bool(0.5) {
				p.RegisterMs = r.Intn(3000)
			}
			if r.Bool(0.3) {
				p.WorkMs = 1 + r.Intn(1500)
			}
			c.Probes = append(c.Probes, p)
		}
		np = 0
	}
	for i := 0; i < np; i++ {
		c.Probes = append(c.Probes, genProbe(r, i, nids))
	}
	if r.Bool(0.2) {
		c.RT.ListFaults = 1 + r.Intn(3)
	}
	maxOps := 8
	if tier == "thorough" {
		maxOps = 14
	}
	for ph := 0; ph < 3; ph++ {
		var writers [][]WriteOp
		nw := 1 + r.Intn(3)
		for i := 0; i < nw; i++ {
			writers = append(writers, genWriteOps(r, ph*3+i, 1+r.Intn(maxOps), types, nids, &uniq, r.Bool(0.6)))
		}
		for i := range writers {
			for j := range writers[i] {
				if r.Bool(0.15) {
					// a write placed right after a controller finished reading / returned from its reconcile
					writers[i][j].After = []string{"read:", "end:"}[r.Intn(2)] + c.Probes[r.Intn(len(c.Probes))].Name
					writers[i][j].SleepMs = 0
				}
			}
		}
		c.Phases = append(c.Phases, writers)
	}
	prefixes = append(prefixes, "rt/", "writer")
	c.Policy = genPolicy(r, prefixes)
	return c
}

func (c05) Shrink(cs Case) []Case {
	c := cs.(*C05Case)
	var out []Case
	if len(c.Probes) > 1 {
		for i := range c.Probes {
			n := cloneJSON(c)
			n.Probes = dropAt(n.Probes, i)
			out = append(out, n)
		}
	}
	for ph := range c.Phases {
		for i := range c.Phases[ph] {
			n := cloneJSON(c)
			n.Phases[ph] = dropAt(n.Phases[ph], i)
			out = append(out, n)
		}
	}
	for ph := range c.Phases {
		for i := range c.Phases[ph] {
			for j := range c.Phases[ph][i] {
				n := cloneJSON(c)
				n.Phases[ph][i] = dropAt(n.Phases[ph][i], j)
				out = append(out, n)
			}
		}
	}
	for i := range c.Pre {
		n := cloneJSON(c)
		n.Pre = dropAt(n.Pre, i)
		out = append(out, n)
	}
	if len(c.RT.Cached) > 0 {
		n := cloneJSON(c)
		n.RT.Cached = nil
		out = append(out, n)
	}
	if c.RT.BatchMs > 0 {
		n := cloneJSON(c)
		n.RT.BatchMs = 0
		out = append(out, n)
	}
	if c.RT.ListFaults > 0 {
		n := cloneJSON(c)
		n.RT.ListFaults--
		out = append(out, n)
	}
	for i, p := range c.Probes {
		if p.WorkMs != 0 || p.RegisterMs >= 0 || p.MoreAt != 0 {
			n := cloneJSON(c)
			n.Probes[i].WorkMs = 0
			out = append(out, n)
			n2 := cloneJSON(c)
			n2.Probes[i].RegisterMs = -1
			out = append(out, n2)
		}
		if len(p.Inputs) > 1 {
			for k := range p.Inputs {
				if p.Inputs[k].Kind == "qprimary" {
					continue
				}
				n := cloneJSON(c)
				n.Probes[i].Inputs = dropAt(n.Probes[i].Inputs, k)
				out = append(out, n)
			}
		}
	}
	if c.Policy.Kind != "walk" || c.Policy.SwitchProb != 0.2 || c.Policy.PermuteMaps || c.Policy.StarvePrefix != "" || c.Policy.PreemptProb != 0 {
		n := cloneJSON(c)
		n.Policy = simrt.Policy{Kind: "walk", SwitchProb: 0.2}
		out = append(out, n)
	}
	return out
}

// checkProbesCurrent is the C05 oracle at a quiescent point.
// mappedFrom: commits with log index >= mappedFrom[probe] must have reached the probe's mapped inputs.
func checkProbesCurrent(prop string, w *RuntimeWorld, probes []*Probe, mappedFrom map[string]int, point int, out *Outcome) {
	contents := map[string]map[string]Snap{}
	get := func(ns, typ string) map[string]Snap {
		k := ns + "/" + typ
		if m, ok := contents[k]; ok {
			return m
		}
		m, err := currentContents(w.Core, ns, typ)
		if err != nil {
			out.HarnessErr = "list at quiescence: " + err.Error()
			return nil
		}
		contents[k] = m
		return m
	}
	for _, p := range probes {
		if !p.Registered {
			continue
		}
		if len(p.ReadErrs) > 0 {
			out.HarnessErr = fmt.Sprintf("probe %s could not read its inputs: %v", p.Spec.Name, p.ReadErrs[0])
			return
		}
		if !p.Spec.Q {
			for _, in := range p.curInputs {
				cur := get(in.ns(), in.Type)
				if cur == nil {
					return
				}
				obs, ok := p.LastObs[in.key()]
				want := map[string]Snap{}
				for id, s := range cur {
					if in.ID == "" || in.ID == id {
						want[id] = s
					}
				}
				if in.Kind == "destroyready" {
					// only resources tearing down without finalizers are announced
					for id, s := range want {
						if s.Phase == "tearingDown" && s.Fins == "" {
							if !ok || obs.Items[id] != s {
								out.violate(prop+"/lost-wakeup", "lost-wakeup:destroyready", "quiescent point %d: controller %s (input %s) never observed %s tearing down without finalizers: last observation (reconcile %d, at log %d) %s, store %s\nlog: %s",
									point, p.Spec.Name, in.key(), id, obs.Seq, obs.LogLen, renderObs(obs.Items), renderObs(want), renderLogFull(w.Log, ""))
								return
							}
						}
					}
					continue
				}
				if !ok {
					out.violate(prop+"/lost-wakeup", "never-reconciled", "quiescent point %d: controller %s never reconciled input %s\nlog: %s", point, p.Spec.Name, in.key(), renderLogFull(w.Log, ""))
					return
				}
				if !snapsEqual(obs.Items, want) {
					out.violate(prop+"/lost-wakeup", "lost-wakeup:"+in.Kind, "quiescent point %d: controller %s (input %s): last observation (reconcile %d, at log %d of %d) %s differs from the store %s\nlog: %s",
						point, p.Spec.Name, in.key(), obs.Seq, obs.LogLen, len(w.Log), renderObs(obs.Items), renderObs(want), renderLogFull(w.Log, ""))
					return
				}
			}
			continue
		}
		// queue controller
		for _, in := range p.Spec.Inputs {
			cur := get(in.ns(), in.Type)
			if cur == nil {
				return
			}
			switch in.Kind {
			case "qprimary":
				// every primary that exists, or was ever written since the controller could see it
				ids := map[string]bool{}
				for id := range cur {
					ids[id] = true
				}
				for i, cm := range w.Log {
					if cm.Type == in.Type && cm.NS == in.ns() && i >= p.RegLog {
						ids[cm.ID] = true
					}
				}
				for id := range ids {
					if in.ID != "" && in.ID != id {
						continue
					}
					key := in.ns() + "/" + in.Type + "/" + id
					obs, ok := p.PrimaryObs[key]
					want := map[string]Snap{}
					if s, exists := cur[id]; exists {
						want[id] = s
					}
					if !ok {
						if len(want) == 0 {
							continue // never seen and gone: nothing to reconcile towards
						}
						out.violate(prop+"/lost-wakeup", "primary-never-reconciled", "quiescent point %d: queue controller %s never reconciled primary %s which exists (%s)\nlog: %s", point, p.Spec.Name, key, renderObs(want), renderLogFull(w.Log, ""))
						return
					}
					if !snapsEqual(obs.Items, want) {
						out.violate(prop+"/lost-wakeup", "lost-wakeup:qprimary", "quiescent point %d: queue controller %s: last Reconcile(%s) (call %d, at log %d of %d) saw %s, the store holds %s\nlog: %s",
							point, p.Spec.Name, key, obs.Seq, obs.LogLen, len(w.Log), renderObs(obs.Items), renderObs(want), renderLogFull(w.Log, ""))
						return
					}
				}
			case "qmapped", "qmappeddr":
				from, ok := mappedFrom[p.Spec.Name]
				if !ok {
					continue
				}
				pt, _ := p.primaryType()
				changed := map[string]bool{}
				for i, cm := range w.Log {
					if cm.Type == in.Type && cm.NS == in.ns() && i >= from {
						changed[cm.ID] = true
					}
				}
				for mid := range changed {
					if in.ID != "" && in.ID != mid {
						continue
					}
					want := map[string]Snap{}
					if s, exists := cur[mid]; exists {
						want[mid] = s
					}
					if in.Kind == "qmappeddr" {
						s, exists := cur[mid]
						if !exists || s.Phase != "tearingDown" || s.Fins != "" {
							continue
						}
					}
					mkey := in.ns() + "/" + in.Type + "/" + mid
					for _, pid := range mapperOf(mid) {
						pkey := "ns1/" + pt + "/" + pid
						obs, ok := p.MappedSeen[pkey][mkey]
						if !ok || !snapsEqual(obs.Items, want) {
							out.violate(prop+"/lost-wakeup", "lost-wakeup:"+in.Kind, "quiescent point %d: queue controller %s: mapped input %s changed (after log %d) and maps to primary %s, but the last Reconcile(%s) (call %d, at log %d) saw %s, the store holds %s\nlog: %s",
								point, p.Spec.Name, mkey, from, pkey, pkey, obs.Seq, obs.LogLen, renderObs(obs.Items), renderObs(want), renderLogFull(w.Log, ""))
							return
						}
					}
				}
			}
		}
	}
}

func (c05) Run(t *testing.T, cs Case, trace bool) *Outcome {
	c := cs.(*C05Case)
	out := &Outcome{}
	var acks []Ack
	var ev int64
	st, panics, berr := simrt.Run(t, simrt.Config{Seed: c.Seed, Policy: c.Policy, Trace: trace}, func(s *simrt.Sim) {
		w, err := NewRuntimeWorld(c.Variant, HistCfg{}, c.RT, out)
		if err != nil {
			out.HarnessErr = "runtime: " + err.Error()
			return
		}
		ctx, cancel := context.WithCancel(context.Background())
		defer cancel()
		// writes before Run (scheduler goroutine: nothing else exists yet)
		wr := &writer{st: w.Core, acks: &acks, ev: &ev, out: out}
		s.Spawn("pre", func() {
			for _, op := range c.Pre {
				op.SleepMs = 0
				wr.do(ctx, op)
			}
		})
		s.Settle(100000)
		var probes []*Probe
		for _, ps := range c.Probes {
			p := NewProbe(ps, w, out)
			probes = append(probes, p)
			if ps.RegisterMs < 0 {
				if err := p.Register(); err != nil {
					out.HarnessErr = fmt.Sprintf("register %s: %v", ps.Name, err)
					return
				}
			}
		}
		w.Start(s, ctx)
		for _, p := range probes {
			if p.Spec.RegisterMs >= 0 {
				s.Spawn("reg-"+p.Spec.Name, func() {
					simrt.Sleep(time.Duration(p.Spec.RegisterMs) * time.Millisecond)
					simrt.Yield("register")
					if err := p.Register(); err != nil {
						out.HarnessErr = fmt.Sprintf("late register %s: %v", p.Spec.Name, err)
					}
				})
			}
		}
		mappedFrom := map[string]int{}
		for ph, writers := range c.Phases {
			before := len(w.Log)
			recBefore := 0
			for _, p := range probes {
				recBefore += p.Reconciles
			}
			for i, ops := range writers {
				wr := &writer{st: w.Core, acks: &acks, ev: &ev, out: out, trig: w.Events}
				s.Spawn(fmt.Sprintf("writer%d-%d", ph, i), func() {
					for _, op := range ops {
						wr.do(ctx, op)
					}
				})
			}
			if r := s.Settle(1500000); r != simrt.Quiescent {
				out.HarnessErr = fmt.Sprintf("C05 phase %d did not become quiescent: %v live=%v", ph, r, s.Live())
				return
			}
			if out.HarnessErr != "" {
				return
			}
			if ps := s.Panics(); len(ps) > 0 {
				out.violate("C05/panic", "panic:"+firstLine(ps[0].Value), "task %s panicked: %s\n%s", ps[0].Task, ps[0].Value, ps[0].Stack)
				return
			}
			if w.RunReturned {
				out.violate("C05/runtime-stopped", "runtime-stopped", "Runtime.Run returned during the run: %v", w.RunErr)
				return
			}
			checkProbesCurrent("C05", w, probes, mappedFrom, ph, out)
			if out.Viol != nil || out.HarnessErr != "" {
				break
			}
			// from now on every registered queue probe must see mapped changes
			for _, p := range probes {
				if p.Registered {
					if _, ok := mappedFrom[p.Spec.Name]; !ok {
						mappedFrom[p.Spec.Name] = len(w.Log)
					}
				}
			}
			recAfter := 0
			for _, p := range probes {
				recAfter += p.Reconciles
			}
			if len(w.Log) > before && recAfter > recBefore && ph >= 1 {
				out.Nontrivial = true
			}
			out.probe("quiescent-point-checked")
		}
		for _, p := range probes {
			out.probeN("reconciles", p.Reconciles)
			out.probeN("map-calls", p.MapCalls)
		}
		if trace {
			out.Trace = s.Trace()
			for _, p := range probes {
				out.Notes = append(out.Notes, fmt.Sprintf("%s spec=%+v reconciles=%d regLog=%d", p.Spec.Name, p.Spec, p.Reconciles, p.RegLog))
			}
			out.Notes = append(out.Notes, "log: "+renderLogFull(w.Log, ""))
		}
		cancel()
		s.Settle(500000)
		if !w.RunReturned {
			out.probe("run-not-returned-after-cancel")
		}
	})
	out.finish(st, panics, berr, true)
	return out
}
