package worlds

import (
	"context"
	"errors"
	"fmt"
	"sort"
	"strings"
	"time"

	"github.com/siderolabs/gen/optional"
	"go.uber.org/zap"
	"go.uber.org/zap/zapcore"
	"go.uber.org/zap/zaptest/observer"

	"github.com/cosi-project/runtime/pkg/controller"
	"github.com/cosi-project/runtime/pkg/controller/runtime"
	"github.com/cosi-project/runtime/pkg/controller/runtime/options"
	"github.com/cosi-project/runtime/pkg/controller/runtime/zzverif/simrt"
	"github.com/cosi-project/runtime/pkg/resource"
	"github.com/cosi-project/runtime/pkg/state"
)

// InputSpec declares one controller input.
type InputSpec struct {
	NS   string `json:"ns,omitempty"`
	Type string `json:"type"`
	ID   string `json:"id,omitempty"`
	Kind string `json:"kind"` // weak | strong | destroyready | qprimary | qmapped | qmappeddr
}

// OutputSpec declares one controller output.
type OutputSpec struct {
	Type string `json:"type"`
	Kind string `json:"kind"` // exclusive | shared
}

func (i InputSpec) ns() string {
	if i.NS == "" {
		return "ns1"
	}
	return i.NS
}

func (i InputSpec) key() string { return i.ns() + "/" + i.Type + "/" + i.ID + "/" + i.Kind }

func inputKind(k string) controller.InputKind {
	switch k {
	case "weak":
		return controller.InputWeak
	case "strong":
		return controller.InputStrong
	case "destroyready":
		return controller.InputDestroyReady
	case "qprimary":
		return controller.InputQPrimary
	case "qmapped":
		return controller.InputQMapped
	case "qmappeddr":
		return controller.InputQMappedDestroyReady
	}
	return controller.InputKind(99)
}

func toInputs(specs []InputSpec) []controller.Input {
	var out []controller.Input
	for _, s := range specs {
		in := controller.Input{Namespace: s.ns(), Type: s.Type, Kind: inputKind(s.Kind)}
		if s.ID != "" {
			in.ID = optional.Some(s.ID)
		}
		out = append(out, in)
	}
	return out
}

func toOutputs(specs []OutputSpec) []controller.Output {
	var out []controller.Output
	for _, s := range specs {
		k := controller.OutputExclusive
		if s.Kind == "shared" {
			k = controller.OutputShared
		}
		out = append(out, controller.Output{Type: s.Type, Kind: k})
	}
	return out
}

// RuntimeOpts are the swarm knobs of the controller runtime.
type RuntimeOpts struct {
	Cached  []string `json:"cached,omitempty"` // resource types (ns1) served from the runtime cache
	Metrics bool     `json:"metrics,omitempty"`
	// ListFaults: the first N List calls the runtime and its controllers issue against the state fail with a
	// transient error (fault injection at the state seam)
	ListFaults int `json:"list_faults,omitempty"`
	// BatchMs > 0: the state handed to the runtime coalesces the batches of aggregated watches over this window (any
	// batching of an aggregated watch is legal; the in-memory state only ever produces some of them)
	BatchMs int `json:"batch_ms,omitempty"`
}

var errListFault = errors.New("transient list failure (injected)")

// faultyState fails the first n List calls.
type faultyState struct {
	state.State
	left *int
	out  *Outcome
}

func (f faultyState) List(ctx context.Context, kind resource.Kind, opts ...state.ListOption) (resource.List, error) {
	if *f.left > 0 {
		*f.left--
		if f.out != nil {
			f.out.fault("state-list-error")
		}
		simrt.Yield("faulty-list")
		return resource.List{}, errListFault
	}
	return f.State.List(ctx, kind, opts...)
}

// RuntimeWorld is a store plus a controller runtime.
type RuntimeWorld struct {
	*StoreWorld
	RT             *runtime.Runtime
	RunReturned    bool
	RunErr         error
	RunRetStep     int64
	RunRetLog      int
	Logs           *observer.ObservedLogs // error-level log entries of the runtime and its controllers
	FaultMode      bool
	FaultOut       *Outcome
	listFaultsLeft int
	Events         *eventTriggers // harness events fired by the probes (reactive writers)
}

// ErrorLogs renders the distinct error-level log messages (controller failures etc.).
func (w *RuntimeWorld) ErrorLogs(max int) []string {
	seen := map[string]int{}
	var order []string
	for _, e := range w.Logs.All() {
		msg := e.Message
		for _, f := range e.Context {
			if f.Key == "error" && f.Interface != nil {
				msg += ": " + fmt.Sprint(f.Interface)
			}
			if f.Key == "controller" {
				msg = "[" + f.String + "] " + msg
			}
		}
		if len(msg) > 400 {
			msg = msg[:400] + "…"
		}
		if seen[msg] == 0 {
			order = append(order, msg)
		}
		seen[msg]++
	}
	var out []string
	for _, m := range order {
		out = append(out, fmt.Sprintf("%dx %s", seen[m], m))
		if len(out) >= max {
			break
		}
	}
	return out
}

// NewRuntimeWorld builds the runtime (inside the bubble).
func NewRuntimeWorld(variant string, h HistCfg, ro RuntimeOpts, outs ...*Outcome) (*RuntimeWorld, error) {
	return NewRuntimeWorldWrapped(variant, h, ro, nil, outs...)
}

// NewRuntimeWorldWrapped is NewRuntimeWorld with a wrapper applied to the state handed to the runtime.
func NewRuntimeWorldWrapped(variant string, h HistCfg, ro RuntimeOpts, wrap func(state.State) state.State, outs ...*Outcome) (*RuntimeWorld, error) {
	w := &RuntimeWorld{StoreWorld: NewStoreWorld(variant, h), Events: newEventTriggers()}
	if len(outs) > 0 {
		w.FaultOut = outs[0]
	}
	opts := []options.Option{options.WithMetrics(ro.Metrics)}
	for _, t := range ro.Cached {
		opts = append(opts, options.WithCachedResource("ns1", t))
	}
	core, logs := observer.New(zapcore.ErrorLevel)
	w.Logs = logs
	var rtState state.State = w.St
	if ro.ListFaults > 0 {
		w.listFaultsLeft = ro.ListFaults
		w.FaultMode = true
		rtState = faultyState{State: w.St, left: &w.listFaultsLeft, out: w.FaultOut}
	}
	if ro.BatchMs > 0 {
		rtState = batchingState{State: rtState, window: time.Duration(ro.BatchMs) * time.Millisecond}
		if w.FaultOut != nil {
			w.FaultOut.fault("watch:batches-coalesced(run)")
		}
	}
	if wrap != nil {
		rtState = wrap(rtState)
	}
	rt, err := runtime.NewRuntime(rtState, zap.New(core), opts...)
	if err != nil {
		return nil, err
	}
	w.RT = rt
	return w, nil
}

// Start runs the runtime in a task.
func (w *RuntimeWorld) Start(s *simrt.Sim, ctx context.Context) {
	s.Spawn("rt", func() {
		w.RunErr = w.RT.Run(ctx)
		w.RunReturned = true
		w.RunRetStep = s.Step()
		w.RunRetLog = len(w.Log)
	})
}

// ObsList is what a probe saw for one input at one reconcile.
type ObsList struct {
	Items  map[string]Snap
	LogLen int
	Seq    int
}

// ProbeSpec describes a probe controller (plain or queue flavour).
type ProbeSpec struct {
	Name        string       `json:"name"`
	Q           bool         `json:"q,omitempty"`
	Inputs      []InputSpec  `json:"inputs"`
	Outputs     []OutputSpec `json:"outputs,omitempty"`
	Concurrency int          `json:"concurrency,omitempty"`
	WorkMs      int          `json:"work_ms,omitempty"`
	RegisterMs  int          `json:"register_ms,omitempty"` // <0: before Run; else virtual ms after start
	MoreAt      int          `json:"more_at,omitempty"`     // plain: call UpdateInputs(Inputs+More) at this reconcile
	More        []InputSpec  `json:"more,omitempty"`
	KindChange  string       `json:"kind_change,omitempty"` // plain: at MoreAt, re-declare Inputs[0] with this kind
}

// Probe is the running state of a probe controller.
type Probe struct {
	Spec       ProbeSpec
	w          *RuntimeWorld
	out        *Outcome
	Reconciles int
	RunStarts  int
	LastObs    map[string]ObsList // plain: input key -> observation
	curInputs  []InputSpec
	Registered bool
	RegErr     error
	RegLog     int                           // log length when registration returned
	PrimaryObs map[string]ObsList            // q: "ns/type/id" of primary -> {Items: id->snap (empty = absent)}
	MappedSeen map[string]map[string]ObsList // q: primary key -> mapped key -> observation
	ReadErrs   []string
	MapCalls   int
	// pending input update, applied by the controller itself at its next reconcile (C17)
	pendingInputs []InputSpec
	pendingSet    bool
	pendingErr    error
	pendingDone   bool
	runHook       func(ctx context.Context) error // queue flavour: run hook body
	runHookRT     func(ctx context.Context, r controller.QRuntime) error
	captureRT     bool
	rt            controller.Runtime // the runtime handle of the running plain controller (C17 drives UpdateInputs through it)
	onReconcile   func(p *Probe, r controller.Runtime) error
	fault         func(p *Probe, where string) error
}

// Name implements controller.Controller / QController.
func (p *Probe) Name() string { return p.Spec.Name }

// Inputs implements controller.Controller.
func (p *Probe) Inputs() []controller.Input { return toInputs(p.Spec.Inputs) }

// Outputs implements controller.Controller.
func (p *Probe) Outputs() []controller.Output { return toOutputs(p.Spec.Outputs) }

func (p *Probe) readInput(ctx context.Context, r controller.Reader, in InputSpec) (ObsList, error) {
	o := ObsList{Items: map[string]Snap{}, LogLen: len(p.w.Log)}
	if in.ID != "" {
		res, err := r.Get(ctx, resource.NewMetadata(in.ns(), in.Type, in.ID, resource.VersionUndefined))
		if err != nil {
			if state.IsNotFoundError(err) {
				return o, nil
			}
			return o, err
		}
		o.Items[in.ID] = SnapOf(res)
		return o, nil
	}
	l, err := r.List(ctx, resource.NewMetadata(in.ns(), in.Type, "", resource.VersionUndefined))
	if err != nil {
		return o, err
	}
	for _, res := range l.Items {
		o.Items[res.Metadata().ID()] = SnapOf(res)
	}
	return o, nil
}

// Run implements controller.Controller: the canonical reconcile loop.
func (p *Probe) Run(ctx context.Context, r controller.Runtime, _ *zap.Logger) error {
	p.RunStarts++
	if p.captureRT {
		p.rt = r
	}
	if p.fault != nil {
		if err := p.fault(p, "run-start"); err != nil {
			return err
		}
	}
	for {
		c := simrt.Recv(ctx.Done())
		e := simrt.Recv(r.EventCh())
		if simrt.Select("probe.wait", false, c, e) == 0 {
			return nil
		}
		p.Reconciles++
		seq := p.Reconciles
		if p.pendingSet {
			p.pendingSet = false
			p.pendingErr = r.UpdateInputs(toInputs(p.pendingInputs))
			if p.pendingErr == nil {
				p.curInputs = append([]InputSpec{}, p.pendingInputs...)
			}
			p.pendingDone = true
		}
		if p.Spec.MoreAt > 0 && seq == p.Spec.MoreAt && (len(p.Spec.More) > 0 || p.Spec.KindChange != "") {
			p.curInputs = append(append([]InputSpec{}, p.Spec.Inputs...), p.Spec.More...)
			if p.Spec.KindChange != "" {
				p.curInputs[0].Kind = p.Spec.KindChange
				delete(p.LastObs, p.Spec.Inputs[0].key())
			}
			if err := r.UpdateInputs(toInputs(p.curInputs)); err != nil {
				p.ReadErrs = append(p.ReadErrs, "UpdateInputs: "+err.Error())
			}
			r.QueueReconcile()
			p.out.probe("inputs-updated")
		}
		for _, in := range p.curInputs {
			o, err := p.readInput(ctx, r, in)
			if err != nil {
				if ctx.Err() != nil {
					return nil
				}
				if p.w.FaultMode && errors.Is(err, errListFault) {
					return err // a real controller fails its run on a read error and is restarted
				}
				p.ReadErrs = append(p.ReadErrs, fmt.Sprintf("read %s: %v", in.key(), err))
				continue
			}
			o.Seq = seq
			p.LastObs[in.key()] = o
			p.w.Events.fire("read:" + p.Spec.Name)
			simrt.Yield("probe.between-reads")
		}
		if p.onReconcile != nil {
			if err := p.onReconcile(p, r); err != nil {
				return err
			}
		}
		if p.fault != nil {
			if err := p.fault(p, "reconcile"); err != nil {
				return err
			}
		}
		if p.Spec.WorkMs > 0 {
			simrt.Sleep(time.Duration(p.Spec.WorkMs) * time.Millisecond)
		}
		p.w.Events.fire("end:" + p.Spec.Name)
		r.ResetRestartBackoff()
	}
}

// Settings implements controller.QController.
func (p *Probe) Settings() controller.QSettings {
	s := controller.QSettings{Inputs: toInputs(p.Spec.Inputs), Outputs: toOutputs(p.Spec.Outputs)}
	if p.Spec.Concurrency > 0 {
		s.Concurrency = optional.Some(uint(p.Spec.Concurrency))
	}
	if p.runHook != nil {
		s.RunHook = func(ctx context.Context, _ *zap.Logger, _ controller.QRuntime) error { return p.runHook(ctx) }
	}
	if p.runHookRT != nil {
		s.RunHook = func(ctx context.Context, _ *zap.Logger, r controller.QRuntime) error { return p.runHookRT(ctx, r) }
	}
	return s
}

// mapperOf is the probes' mapping function from a mapped resource to primaries: same id, and r0 additionally to r1.
func mapperOf(id string) []string {
	if id == "r0" {
		return []string{"r0", "r1"}
	}
	return []string{id}
}

// inverseMapper lists the mapped ids that map to a primary id.
func inverseMapper(id string) []string {
	if id == "r1" {
		return []string{"r1", "r0"}
	}
	return []string{id}
}

func (p *Probe) primaryType() (string, bool) {
	for _, in := range p.Spec.Inputs {
		if in.Kind == "qprimary" {
			return in.Type, true
		}
	}
	return "", false
}

// Reconcile implements controller.QController.
func (p *Probe) Reconcile(ctx context.Context, _ *zap.Logger, r controller.QRuntime, ptr resource.Pointer) error {
	p.Reconciles++
	seq := p.Reconciles
	key := ptr.Namespace() + "/" + ptr.Type() + "/" + ptr.ID()
	o, err := p.readInput(ctx, r, InputSpec{NS: ptr.Namespace(), Type: ptr.Type(), ID: ptr.ID()})
	if err != nil {
		if ctx.Err() != nil {
			return nil
		}
		if p.w.FaultMode && errors.Is(err, errListFault) {
			return err
		}
		p.ReadErrs = append(p.ReadErrs, fmt.Sprintf("read primary %s: %v", key, err))
	} else {
		o.Seq = seq
		p.PrimaryObs[key] = o
		p.w.Events.fire("read:" + p.Spec.Name)
	}
	for _, in := range p.Spec.Inputs {
		if in.Kind != "qmapped" && in.Kind != "qmappeddr" {
			continue
		}
		for _, mid := range inverseMapper(ptr.ID()) {
			if in.ID != "" && in.ID != mid {
				continue
			}
			simrt.Yield("qprobe.between-reads")
			mo, err := p.readInput(ctx, r, InputSpec{NS: in.ns(), Type: in.Type, ID: mid})
			if err != nil {
				if ctx.Err() != nil {
					return nil
				}
				if p.w.FaultMode && errors.Is(err, errListFault) {
					return err
				}
				p.ReadErrs = append(p.ReadErrs, fmt.Sprintf("read mapped %s/%s: %v", in.Type, mid, err))
				continue
			}
			mo.Seq = seq
			if p.MappedSeen[key] == nil {
				p.MappedSeen[key] = map[string]ObsList{}
			}
			p.MappedSeen[key][in.ns()+"/"+in.Type+"/"+mid] = mo
		}
	}
	if p.fault != nil {
		if err := p.fault(p, "reconcile:"+ptr.ID()); err != nil {
			return err
		}
	}
	if p.Spec.WorkMs > 0 {
		simrt.Sleep(time.Duration(p.Spec.WorkMs) * time.Millisecond)
	}
	p.w.Events.fire("end:" + p.Spec.Name)
	return nil
}

// MapInput implements controller.QController.
func (p *Probe) MapInput(ctx context.Context, _ *zap.Logger, _ controller.QRuntime, md controller.ReducedResourceMetadata) ([]resource.Pointer, error) {
	p.MapCalls++
	if p.fault != nil {
		if err := p.fault(p, "map:"+md.ID()); err != nil {
			return nil, err
		}
	}
	pt, ok := p.primaryType()
	if !ok {
		return nil, nil
	}
	var out []resource.Pointer
	for _, id := range mapperOf(md.ID()) {
		out = append(out, resource.NewMetadata("ns1", pt, id, resource.VersionUndefined))
	}
	return out, nil
}

// NewProbe builds a probe.
func NewProbe(spec ProbeSpec, w *RuntimeWorld, out *Outcome) *Probe {
	return &Probe{Spec: spec, w: w, out: out, LastObs: map[string]ObsList{}, curInputs: append([]InputSpec{}, spec.Inputs...),
		PrimaryObs: map[string]ObsList{}, MappedSeen: map[string]map[string]ObsList{}}
}

// Register registers the probe with the runtime.
func (p *Probe) Register() error {
	if p.Spec.Q {
		p.RegErr = p.w.RT.RegisterQController(p)
	} else {
		p.RegErr = p.w.RT.RegisterController(p)
	}
	p.Registered = p.RegErr == nil
	p.RegLog = len(p.w.Log)
	return p.RegErr
}

// currentContents lists the store directly (scheduler goroutine, at quiescence).
func currentContents(st state.CoreState, ns, typ string) (map[string]Snap, error) {
	l, err := st.List(context.Background(), resource.NewMetadata(ns, typ, "", resource.VersionUndefined))
	if err != nil {
		return nil, err
	}
	m := map[string]Snap{}
	for _, r := range l.Items {
		m[r.Metadata().ID()] = SnapOf(r)
	}
	return m, nil
}

func renderObs(m map[string]Snap) string {
	keys := make([]string, 0, len(m))
	for k := range m {
		keys = append(keys, k)
	}
	sort.Strings(keys)
	var parts []string
	for _, k := range keys {
		s := m[k]
		parts = append(parts, fmt.Sprintf("%s@%s[%s fins=%s labels=%s val=%s]", k, s.Version, s.Phase, s.Fins, s.Labels, s.Val))
	}
	return "{" + strings.Join(parts, " ") + "}"
}
