package worlds

import (
	"context"
	"encoding/json"
	"errors"
	"fmt"
	"sort"
	"testing"
	"time"

	"go.uber.org/zap"

	"github.com/cosi-project/runtime/pkg/controller"
	"github.com/cosi-project/runtime/pkg/controller/generic/qtransform"
	"github.com/cosi-project/runtime/pkg/controller/runtime/internal/qruntime"
	"github.com/cosi-project/runtime/pkg/controller/runtime/zzverif/simrt"
	"github.com/cosi-project/runtime/pkg/resource"
	"github.com/cosi-project/runtime/pkg/state"
	"github.com/siderolabs/gen/optional"
	"github.com/siderolabs/gen/xerrors"
)

// ---------------------------------------------------------------------------
// C09 — reconcile queue: exclusion, coalescing, no loss, honoured backoff (DESIGN §7 C09)

// QPut is one Put of a putter task.
type QPut struct {
	Key     string `json:"key"`
	SleepMs int    `json:"sleep_ms,omitempty"`
}

// QWork is how a worker treats its n-th item.
type QWork struct {
	HoldMs    int  `json:"hold_ms,omitempty"`
	RequeueMs int  `json:"requeue_ms,omitempty"` // >0: Requeue(now+this) instead of Release
	Double    bool `json:"double,omitempty"`     // call Release after Requeue as the runtime does (deferred Release)
}

// C09Case is a C09 run.
type C09Case struct {
	Common
	Part    string    `json:"part"`              // queue | backoff
	Early   []QPut    `json:"early,omitempty"`   // puts before any worker exists
	Putters [][]QPut  `json:"putters,omitempty"` // concurrent with the workers
	Workers [][]QWork `json:"workers,omitempty"` // per worker: behaviour for successive items (cycled)
	// backoff part: outcome script per primary id of a probe queue controller
	Script      map[string][]string `json:"script,omitempty"` // ok | error | requeue | requeue-err | skip | panic
	Concurrency int                 `json:"concurrency,omitempty"`
	WorkMs      int                 `json:"work_ms,omitempty"` // virtual duration of every scripted reconcile
	Touch       []WriteOp           `json:"touch,omitempty"`   // external writes during the run
}

type c09 struct{}

func init() { register(c09{}) }

func (c09) ID() string { return "C09" }

func (c09) Rule() string {
	return "two kinds of case: (queue) the internal reconcile queue alone: puts before any worker exists, then 1-3 putter tasks and 1-4 worker tasks (Get -> hold a virtual while -> Release / Requeue(after) / Requeue+Release as the runtime does) over <=4 keys with unique values on the virtual clock; (backoff) the real queue runtime with a probe queue controller whose reconcile outcomes follow a script per item (ok, error, requeue, requeue-with-error, skip, panic) while external writes touch the items; non-trivial = a Put landed while its key was held and a Requeue was pending, or >=5 consecutive failures of one item were observed; distinct = distinct scheduler trace hash"
}

func (c09) Components() (real, stub []string) {
	return []string{"internal/qruntime/internal/queue (Queue.Run, Item), containers (PriorityQueue, SliceSet), timer (ResettableTimer)", "internal/qruntime (runReconcile, per-item backoff), pkg/controller/runtime (backoff part)", "cenkalti/backoff on the virtual clock"},
		[]string{"Go scheduler choice (simrt)", "OS clock (synctest)", "queue controller body (harness probe following the outcome script)"}
}

func (c09) Decode(b []byte) (Case, error) {
	var c C09Case
	err := json.Unmarshal(b, &c)
	return &c, err
}

func (c09) Gen(seed uint64, tier string) Case {
	r := simrt.NewRNG(seed)
	c := &C09Case{Common: Common{Prop: "C09", Seed: seed, Tier: tier}}
	if r.Bool(0.7) {
		c.Part = "queue"
		nkeys := 1 + r.Intn(4)
		key := func() string { return fmt.Sprintf("k%d", r.Intn(nkeys)) }
		for i := 0; i < r.Intn(5); i++ {
			c.Early = append(c.Early, QPut{Key: key()})
		}
		np := 1 + r.Intn(3)
		maxPuts := 10
		if tier == "thorough" {
			maxPuts = 20
		}
		for i := 0; i < np; i++ {
			var puts []QPut
			for j := 0; j < 1+r.Intn(maxPuts); j++ {
				// every key has one putter (keys are dealt round-robin), so the puts of a key are totally ordered
				var mine []int
				for k := 0; k < nkeys; k++ {
					if k%np == i {
						mine = append(mine, k)
					}
				}
				if len(mine) == 0 {
					break
				}
				p := QPut{Key: fmt.Sprintf("k%d", mine[r.Intn(len(mine))])}
				if r.Bool(0.6) {
					p.SleepMs = 1 + r.Intn(1500)
				}
				puts = append(puts, p)
			}
			c.Putters = append(c.Putters, puts)
		}
		nw := 1 + r.Intn(4)
		for i := 0; i < nw; i++ {
			var ws []QWork
			for j := 0; j < 1+r.Intn(4); j++ {
				w := QWork{}
				if r.Bool(0.7) {
					w.HoldMs = 1 + r.Intn(2000)
				}
				if r.Bool(0.4) {
					w.RequeueMs = 1 + r.Intn(3000)
					w.Double = r.Bool(0.6)
				}
				ws = append(ws, w)
			}
			c.Workers = append(c.Workers, ws)
		}
		c.Policy = genPolicy(r, []string{"putter", "worker", "queue"})
		return c
	}
	c.Part = "backoff"
	c.Concurrency = 1 + r.Intn(3)
	c.WorkMs = []int{0, 0, 300, 2500, 6000}[r.Intn(5)]
	c.Script = map[string][]string{}
	nids := 1 + r.Intn(3)
	for i := 0; i < nids; i++ {
		var sc []string
		n := 2 + r.Intn(12)
		for j := 0; j < n; j++ {
			sc = append(sc, []string{"ok", "error", "requeue", "requeue-err", "skip", "panic"}[r.Pick([]int{2, 8, 1, 2, 1, 1})])
		}
		c.Script[fmt.Sprintf("r%d", i)] = sc
	}
	uniq := 0
	c.Touch = genWriteOps(r, 0, r.Intn(5), []string{TypeA}, nids, &uniq, false)
	for i := range c.Touch {
		c.Touch[i].SleepMs = r.Intn(20000)
	}
	c.Policy = genPolicy(r, []string{"rt/", "toucher"})
	return c
}

func (c09) Shrink(cs Case) []Case {
	c := cs.(*C09Case)
	var out []Case
	for i := range c.Putters {
		n := cloneJSON(c)
		n.Putters = dropAt(n.Putters, i)
		out = append(out, n)
	}
	if len(c.Workers) > 1 {
		for i := range c.Workers {
			n := cloneJSON(c)
			n.Workers = dropAt(n.Workers, i)
			out = append(out, n)
		}
	}
	for i := range c.Putters {
		for j := range c.Putters[i] {
			n := cloneJSON(c)
			n.Putters[i] = dropAt(n.Putters[i], j)
			out = append(out, n)
		}
	}
	for i := range c.Early {
		n := cloneJSON(c)
		n.Early = dropAt(n.Early, i)
		out = append(out, n)
	}
	for i := range c.Workers {
		if len(c.Workers[i]) > 1 {
			for j := range c.Workers[i] {
				n := cloneJSON(c)
				n.Workers[i] = dropAt(n.Workers[i], j)
				out = append(out, n)
			}
		}
	}
	for k, sc := range c.Script {
		if len(c.Script) > 1 {
			n := cloneJSON(c)
			delete(n.Script, k)
			out = append(out, n)
		}
		for j := range sc {
			n := cloneJSON(c)
			n.Script[k] = dropAt(n.Script[k], j)
			out = append(out, n)
		}
	}
	for i := range c.Touch {
		n := cloneJSON(c)
		n.Touch = dropAt(n.Touch, i)
		out = append(out, n)
	}
	if c.Policy.Kind != "walk" || c.Policy.SwitchProb != 0.2 || c.Policy.PermuteMaps || c.Policy.StarvePrefix != "" || c.Policy.PreemptProb != 0 {
		n := cloneJSON(c)
		n.Policy = simrt.Policy{Kind: "walk", SwitchProb: 0.2}
		out = append(out, n)
	}
	return out
}

type qEvent struct {
	Kind      string // put-invoke | put-return | get | release | requeue
	Key       string
	Val       int
	Worker    int
	Ev        int64
	At        time.Duration // virtual time
	NotBefore time.Duration // requeue: requested earliest redelivery
}

func (c09) Run(t *testing.T, cs Case, trace bool) *Outcome {
	c := cs.(*C09Case)
	if c.Part == "backoff" {
		return runC09Backoff(t, c, trace)
	}
	out := &Outcome{}
	var hist []qEvent
	var ev int64
	st, panics, berr := simrt.Run(t, simrt.Config{Seed: c.Seed, Policy: c.Policy, Trace: trace}, func(s *simrt.Sim) {
		q := qruntime.VerifNewQueue[string, int]()
		ctx, cancel := context.WithCancel(context.Background())
		defer cancel()
		s.Spawn("queue", func() { q.Run(ctx) })
		rec := func(e qEvent) {
			ev++
			e.Ev = ev
			e.At = s.Now()
			hist = append(hist, e)
		}
		val := 0
		put := func(key string) {
			val++
			v := val
			rec(qEvent{Kind: "put-invoke", Key: key, Val: v})
			q.Put(key, v)
			rec(qEvent{Kind: "put-return", Key: key, Val: v})
		}
		s.Spawn("putter-early", func() {
			for _, p := range c.Early {
				simrt.Yield("putter.op")
				put(p.Key)
			}
		})
		if r := s.Settle(200000); r != simrt.Quiescent {
			out.HarnessErr = fmt.Sprintf("C09 early phase did not become quiescent: %v live=%v", r, s.Live())
			return
		}
		distinct := map[string]bool{}
		for _, p := range c.Early {
			distinct[p.Key] = true
		}
		if got := q.Len(); got != int64(len(distinct)) {
			out.violate("C09/len", "len-pending", "with no worker running and %d distinct keys put, Len() reports %d", len(distinct), got)
			return
		}
		for i, puts := range c.Putters {
			s.Spawn(fmt.Sprintf("putter%d", i), func() {
				for _, p := range puts {
					if p.SleepMs > 0 {
						simrt.Sleep(time.Duration(p.SleepMs) * time.Millisecond)
					}
					simrt.Yield("putter.op")
					put(p.Key)
				}
			})
		}
		for i, ws := range c.Workers {
			s.Spawn(fmt.Sprintf("worker%d", i), func() {
				n := 0
				for {
					rec(qEvent{Kind: "wait", Worker: i})
					g := simrt.Recv(q.Get())
					d := simrt.Recv(ctx.Done())
					if simrt.Select("worker.get", false, d, g) == 0 {
						return
					}
					item := g.V
					k, v := item.Get()
					rec(qEvent{Kind: "get", Key: k, Val: v, Worker: i})
					w := ws[n%len(ws)]
					n++
					if w.HoldMs > 0 {
						simrt.Sleep(time.Duration(w.HoldMs) * time.Millisecond)
					} else {
						simrt.Yield("worker.hold")
					}
					if w.RequeueMs > 0 && n <= 2*len(ws) {
						// (a worker requeues only its first few items: an item requeued on every delivery never settles)
						nb := s.Now() + time.Duration(w.RequeueMs)*time.Millisecond
						rec(qEvent{Kind: "requeue", Key: k, Val: v, Worker: i, NotBefore: nb})
						item.Requeue(time.Now().Add(time.Duration(w.RequeueMs) * time.Millisecond))
						if w.Double {
							simrt.Yield("worker.between-requeue-release")
							item.Release()
						}
					} else {
						rec(qEvent{Kind: "release", Key: k, Val: v, Worker: i})
						item.Release()
					}
				}
			})
		}
		if r := s.Settle(1500000); r != simrt.Quiescent {
			out.HarnessErr = fmt.Sprintf("C09 run did not become quiescent: %v live=%v", r, s.Live())
			return
		}
		if ps := s.Panics(); len(ps) > 0 {
			out.violate("C09/panic", "panic:"+firstLine(ps[0].Value), "task %s panicked: %s\n%s", ps[0].Task, ps[0].Value, ps[0].Stack)
			return
		}
		checkQueueHistory(hist, out)
		if out.Viol == nil {
			if got := q.Len(); got != 0 {
				out.violate("C09/len", "len-final", "everything was delivered and released, but Len() reports %d", got)
			}
		}
		if trace {
			out.Trace = s.Trace()
			for _, e := range hist {
				out.Notes = append(out.Notes, fmt.Sprintf("%4d t=%-10v %-10s %s=%d worker=%d notbefore=%v", e.Ev, e.At, e.Kind, e.Key, e.Val, e.Worker, e.NotBefore))
			}
		}
		cancel()
		s.Settle(200000)
		if n := s.LiveCount(); n != 0 {
			out.violate("C09/leak", "leak", "queue tasks still alive after cancellation: %v", s.Live())
		}
	})
	out.finish(st, panics, berr, true)
	return out
}

// checkQueueHistory evaluates the queue oracles over the recorded history. Every key has a single putter at any
// time, so the puts of a key are totally ordered (values grow with put order). A worker's "get" is recorded when the
// worker task runs again after the hand-over, so the hand-over instant lies between its "wait" and its "get" record:
// the oracles only use what is certain under that uncertainty.
func checkQueueHistory(hist []qEvent, out *Outcome) {
	type put struct {
		inv, ret int64
		val      int
	}
	puts := map[string][]*put{}
	byVal := map[int]*put{}
	holder := map[string]int{}     // key -> worker holding (+1), 0 = free
	holdFrom := map[string]int64{} // key -> "wait" event of the worker that holds / last held it
	waitEv := map[int]int64{}
	waitAt := map[int]time.Duration{}
	getEvOfHold := map[string]int64{}
	pendingRequeue := map[string]*qEvent{}
	delivered := map[string]map[int]bool{}
	lastDelivered := map[string]int{}
	render := func() string {
		var lines []string
		for _, e := range hist {
			if e.Kind == "wait" {
				continue
			}
			lines = append(lines, fmt.Sprintf("  %4d t=%-10v %-10s %s=%d worker=%d", e.Ev, e.At, e.Kind, e.Key, e.Val, e.Worker))
		}
		if len(lines) > 80 {
			lines = append(lines[:40], append([]string{"  ..."}, lines[len(lines)-40:]...)...)
		}
		return "\n" + joinLines(lines)
	}
	putDuringHoldWithRequeue := false
	for i := range hist {
		e := hist[i]
		switch e.Kind {
		case "wait":
			waitEv[e.Worker] = e.Ev
			waitAt[e.Worker] = e.At
		case "put-invoke":
			p := &put{inv: e.Ev, val: e.Val}
			puts[e.Key] = append(puts[e.Key], p)
			byVal[e.Val] = p
			if holder[e.Key] != 0 {
				out.probe("put-during-hold")
			}
		case "put-return":
			byVal[e.Val].ret = e.Ev
		case "get":
			if h := holder[e.Key]; h != 0 {
				out.violate("C09/exclusion", "double-delivery", "key %s handed to worker %d at event %d while worker %d still holds it%s", e.Key, e.Worker, e.Ev, h-1, render())
				return
			}
			holder[e.Key] = e.Worker + 1
			w0 := waitEv[e.Worker]
			// coalescing / latest value: not older than the newest Put completed before this worker even started waiting
			floor := 0
			for _, p := range puts[e.Key] {
				if p.ret != 0 && p.ret < w0 && p.val > floor {
					floor = p.val
				}
			}
			if e.Val < floor {
				out.violate("C09/coalescing", "stale-value", "key %s delivered to worker %d (waiting since event %d) with value %d, although the Put of value %d had completed before%s", e.Key, e.Worker, w0, e.Val, floor, render())
				return
			}
			if e.Val < lastDelivered[e.Key] {
				out.violate("C09/coalescing", "value-went-back", "key %s delivered with value %d after value %d had already been delivered%s", e.Key, e.Val, lastDelivered[e.Key], render())
				return
			}
			lastDelivered[e.Key] = e.Val
			if rq := pendingRequeue[e.Key]; rq != nil {
				if e.At < rq.NotBefore {
					// early redelivery needs a fresh notification that may have arrived after the hold began
					fresh := false
					for _, p := range puts[e.Key] {
						if p.ret == 0 || p.ret > holdFrom[e.Key] {
							if p.inv < e.Ev {
								fresh = true
							}
						}
					}
					if !fresh {
						out.violate("C09/backoff", "early-redelivery", "key %s was requeued at t=%v with not-before t=%v but delivered again at t=%v without any Put since the hold began%s", e.Key, rq.At, rq.NotBefore, e.At, render())
						return
					}
					out.probe("requeue-overridden-by-put")
				} else {
					out.probe("requeue-honoured")
					// a notification that arrived during the hold overrides the backoff: with this worker waiting since
					// before the requeue, the redelivery needed no virtual time at all
					if rq.NotBefore > rq.At && waitAt[e.Worker] <= rq.At {
						for _, p := range puts[e.Key] {
							if p.inv > getEvOfHold[e.Key] && p.ret != 0 && p.ret < rq.Ev {
								out.violate("C09/fresh-notification-delayed", "fresh-notification-delayed", "a Put for key %s (value %d) arrived while the key was held; the holder then requeued it at t=%v with not-before t=%v; worker %d was waiting all along, yet the key was only delivered again at t=%v - the fresh notification was held back for the whole backoff%s", e.Key, p.val, rq.At, rq.NotBefore, e.Worker, e.At, render())
								return
							}
						}
					}
				}
				delete(pendingRequeue, e.Key)
			}
			holdFrom[e.Key] = w0
			getEvOfHold[e.Key] = e.Ev
			if delivered[e.Key] == nil {
				delivered[e.Key] = map[int]bool{}
			}
			delivered[e.Key][e.Val] = true
		case "release", "requeue":
			if holder[e.Key] != e.Worker+1 {
				out.HarnessErr = fmt.Sprintf("history inconsistency: worker %d releases %s it does not hold", e.Worker, e.Key)
				return
			}
			holder[e.Key] = 0
			if e.Kind == "requeue" {
				ec := e
				pendingRequeue[e.Key] = &ec
				for _, p := range puts[e.Key] {
					if p.inv > holdFrom[e.Key] {
						putDuringHoldWithRequeue = true
					}
				}
			}
		}
	}
	// no loss: the newest put of every key has been delivered
	keys := make([]string, 0, len(puts))
	for k := range puts {
		keys = append(keys, k)
	}
	sort.Strings(keys)
	for _, k := range keys {
		newest := 0
		for _, p := range puts[k] {
			if p.val > newest {
				newest = p.val
			}
		}
		if newest != 0 && !delivered[k][newest] {
			out.violate("C09/lost-notification", "lost-put", "the last notification for key %s (value %d) was never delivered although workers were idle at quiescence%s", k, newest, render())
			return
		}
	}
	out.Nontrivial = putDuringHoldWithRequeue || out.Probes["put-during-hold"] > 0 && out.Probes["requeue-honoured"] > 0
}

func joinLines(l []string) string {
	s := ""
	for i, x := range l {
		if i > 0 {
			s += "\n"
		}
		s += x
	}
	return s
}

// ---- backoff part: the real queue runtime with a scripted probe controller

type scriptedQ struct {
	script map[string][]string
	calls  map[string]int
	times  map[string][]time.Duration
	kinds  map[string][]string
	sim    *simrt.Sim
	conc   int
	workMs int
	ends   map[string][]time.Duration
}

func optionalUint(n int) optional.Optional[uint] { return optional.Some(uint(n)) }

func (q *scriptedQ) Name() string { return "SQ" }
func (q *scriptedQ) Settings() controller.QSettings {
	s := controller.QSettings{Inputs: toInputs([]InputSpec{{Type: TypeA, Kind: "qprimary"}})}
	if q.conc > 0 {
		s.Concurrency = optionalUint(q.conc)
	}
	return s
}

var errScripted = errors.New("scripted reconcile failure")

func (q *scriptedQ) Reconcile(_ context.Context, _ *zap.Logger, _ controller.QRuntime, ptr resource.Pointer) error {
	id := ptr.ID()
	n := q.calls[id]
	q.calls[id]++
	sc := q.script[id]
	outcome := "ok"
	if n < len(sc) {
		outcome = sc[n]
	}
	q.times[id] = append(q.times[id], q.sim.Now())
	q.kinds[id] = append(q.kinds[id], outcome)
	simrt.Yield("scripted.reconcile")
	if q.workMs > 0 {
		simrt.Sleep(time.Duration(q.workMs) * time.Millisecond)
	}
	if q.ends != nil {
		q.ends[id] = append(q.ends[id], q.sim.Now())
	}
	switch outcome {
	case "error":
		return errScripted
	case "requeue":
		return controller.NewRequeueInterval(7 * time.Second)
	case "requeue-err":
		return controller.NewRequeueError(errScripted, 3*time.Second)
	case "skip":
		return xerrors.NewTaggedf[qtransform.SkipReconcileTag]("skipped on purpose")
	case "panic":
		panic("scripted panic")
	}
	return nil
}

func (q *scriptedQ) MapInput(context.Context, *zap.Logger, controller.QRuntime, controller.ReducedResourceMetadata) ([]resource.Pointer, error) {
	return nil, nil
}

func runC09Backoff(t *testing.T, c *C09Case, trace bool) *Outcome {
	return runItemBackoff(t, "C09", c, trace)
}

// runItemBackoff runs the scripted queue-item scenario; prop names the property the oracles report under.
func runItemBackoff(t *testing.T, prop string, c *C09Case, trace bool) *Outcome {
	out := &Outcome{}
	var acks []Ack
	var ev int64
	st, panics, berr := simrt.Run(t, simrt.Config{Seed: c.Seed, Policy: c.Policy, Trace: trace}, func(s *simrt.Sim) {
		w, err := NewRuntimeWorld("inmem+tap", HistCfg{}, RuntimeOpts{})
		if err != nil {
			out.HarnessErr = err.Error()
			return
		}
		ctx, cancel := context.WithCancel(context.Background())
		defer cancel()
		ids := sortedKeys(c.Script)
		for _, id := range ids {
			if err := w.St.Create(ctx, NewRes("ns1", TypeA, id, "init")); err != nil {
				out.HarnessErr = err.Error()
				return
			}
		}
		sq := &scriptedQ{script: c.Script, calls: map[string]int{}, times: map[string][]time.Duration{}, kinds: map[string][]string{}, sim: s, conc: c.Concurrency, workMs: c.WorkMs, ends: map[string][]time.Duration{}}
		if err := w.RT.RegisterQController(sq); err != nil {
			out.HarnessErr = err.Error()
			return
		}
		w.Start(s, ctx)
		touchAt := map[string][]time.Duration{}
		wr := &writer{st: w.Core, acks: &acks, ev: &ev, out: out}
		s.Spawn("toucher", func() {
			for _, op := range c.Touch {
				if op.Kind == "destroy" || op.Kind == "create" {
					op.Kind = "update"
				}
				wr.do(ctx, op)
				touchAt[op.ID] = append(touchAt[op.ID], s.Now())
			}
		})
		if r := s.Settle(1000000); r != simrt.Quiescent {
			out.HarnessErr = fmt.Sprintf("C09 backoff run did not become quiescent: %v live=%v", r, s.Live())
			return
		}
		if ps := s.Panics(); len(ps) > 0 {
			out.violate(prop+"/panic", "panic:"+firstLine(ps[0].Value), "task %s panicked: %s\n%s", ps[0].Task, ps[0].Value, ps[0].Stack)
			return
		}
		if w.RunReturned {
			out.violate(prop+"/runtime-stopped", "runtime-stopped", "Runtime.Run returned: %v", w.RunErr)
			return
		}
		for _, id := range sortedKeys(sq.kinds) {
			for _, k := range sq.kinds[id] {
				if k != "ok" {
					out.fault("reconcile-outcome:" + k)
				}
			}
		}
		// every script must have been played to its end: a failing item is retried until it succeeds
		var firstGaps, deepGaps []time.Duration
		var firstDesc, deepDesc []string
		for _, id := range ids {
			sc := c.Script[id]
			if n := len(sq.kinds[id]); n > 0 {
				if last := sq.kinds[id][n-1]; last != "ok" && last != "skip" {
					out.violate(prop+"/retry", "retry-stopped", "item %s: its last reconcile (#%d) ended with %q and was never retried, although the system is quiescent\nkinds: %v times: %v", id, n-1, last, sq.kinds[id], sq.times[id])
					return
				}
			}
			_ = sc
			streak := 0
			for n := 0; n+1 < len(sq.times[id]); n++ {
				kind := sq.kinds[id][n]
				gap := sq.times[id][n+1] - sq.times[id][n]
				// a requested delay / a retry backoff counts from the moment the reconcile returned
				if n < len(sq.ends[id]) {
					gap = sq.times[id][n+1] - sq.ends[id][n]
				}
				touched := false
				for _, tt := range touchAt[id] {
					if tt >= sq.times[id][n] && tt <= sq.times[id][n+1] {
						touched = true
					}
				}
				switch kind {
				case "ok", "skip":
					streak = 0
				case "requeue":
					streak = 0
					if gap < 7*time.Second && !touched {
						out.violate(prop+"/backoff", "requeue-early", "item %s: reconcile %d asked to be requeued after 7s but was reconciled again after %v without any new notification", id, n, gap)
						return
					}
				case "requeue-err":
					if gap < 3*time.Second && !touched {
						out.violate(prop+"/backoff", "requeue-early", "item %s: reconcile %d asked to be requeued after 3s (with error) but was reconciled again after %v without any new notification", id, n, gap)
						return
					}
				case "error", "panic":
					streak++
					if touched {
						continue
					}
					if streak == 1 {
						firstGaps = append(firstGaps, gap)
						firstDesc = append(firstDesc, fmt.Sprintf("%s#%d=%v", id, n, gap))
					}
					if streak >= 5 {
						deepGaps = append(deepGaps, gap)
						deepDesc = append(deepDesc, fmt.Sprintf("%s#%d(streak %d)=%v", id, n, streak, gap))
					}
				}
			}
		}
		// with a non-zero reconcile duration the observed gaps include waiting for a busy worker (which can only lengthen
		// them): the growth comparison is made in the zero-duration runs only
		if c.WorkMs == 0 && len(firstGaps) > 0 && len(deepGaps) > 0 {
			maxFirst, minDeep := firstGaps[0], deepGaps[0]
			for _, g := range firstGaps {
				if g > maxFirst {
					maxFirst = g
				}
			}
			for _, g := range deepGaps {
				if g < minDeep {
					minDeep = g
				}
			}
			if minDeep <= maxFirst {
				out.violate(prop+"/backoff-growth", "backoff-not-growing-or-not-reset", "retry delays do not grow with consecutive failures and reset on success: a delay after >=5 consecutive failures (%v) is not longer than a delay after a first failure (%v)\nfirst-failure delays: %v\ndeep-failure delays: %v", minDeep, maxFirst, firstDesc, deepDesc)
				return
			}
			out.probe("growth-and-reset-compared")
			out.Nontrivial = true
		}
		if len(deepGaps) > 0 {
			out.probe("streak>=5")
		}
		if trace {
			out.Trace = s.Trace()
			for _, id := range ids {
				out.Notes = append(out.Notes, fmt.Sprintf("%s kinds=%v times=%v touch=%v", id, sq.kinds[id], sq.times[id], touchAt[id]))
			}
		}
		cancel()
		s.Settle(500000)
	})
	out.finish(st, panics, berr, true)
	return out
}

var _ = state.IsNotFoundError
