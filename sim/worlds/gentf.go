package worlds

import (
	"context"
	"errors"
	"fmt"
	"regexp"
	"strings"
	"time"

	"github.com/siderolabs/gen/optional"
	"go.uber.org/zap"

	"github.com/cosi-project/runtime/pkg/controller"
	"github.com/cosi-project/runtime/pkg/controller/generic/cleanup"
	"github.com/cosi-project/runtime/pkg/controller/generic/destroy"
	"github.com/cosi-project/runtime/pkg/controller/generic/qtransform"
	"github.com/cosi-project/runtime/pkg/controller/generic/transform"
	"github.com/cosi-project/runtime/pkg/controller/runtime/zzverif/simrt"
	"github.com/cosi-project/runtime/pkg/resource"
	"github.com/cosi-project/runtime/pkg/state"
	"github.com/siderolabs/gen/xerrors"
)

// TFOp is one external operation in the generic-controller world.
type TFOp struct {
	Kind    string `json:"kind"` // create | update | teardown | destroy | infin+ | infin- | outfin+ | outfin- | child+ | child-
	ID      string `json:"id"`
	Val     string `json:"val,omitempty"`
	Fin     string `json:"fin,omitempty"`
	SleepMs int    `json:"sleep_ms,omitempty"`
	// After makes the actor react to a commit instead of sleeping: the operation is issued as soon as the named commit on
	// the resource with this id has happened (out-td: output marked tearing-down, out-created, out-destroyed, in-td: input
	// marked tearing-down, in-released: the transform controller's finalizer left the input). Faults placed right after the
	// commit that opens a window, not at a random time.
	After string `json:"after,omitempty"`
}

// TFCase is a run of the generic transform / cleanup controllers (C06, C07).
type TFCase struct {
	Common
	RT              RuntimeOpts `json:"rt"`
	Flavour         string      `json:"flavour"` // transform | qtransform
	InputFinalizers bool        `json:"input_finalizers,omitempty"`
	IgnoreTD        bool        `json:"ignore_td,omitempty"`
	Shared          bool        `json:"shared,omitempty"`
	Concurrency     int         `json:"concurrency,omitempty"`
	IgnoreUntil     []string    `json:"ignore_until,omitempty"`
	UseIgnoreUntil  bool        `json:"use_ignore_until,omitempty"`
	IgnoreWhile     []string    `json:"ignore_while,omitempty"`
	OptionalMap     bool        `json:"optional_map,omitempty"`
	TransformMs     int         `json:"transform_ms,omitempty"`
	Faults          []int       `json:"faults,omitempty"` // transform invocations (1-based) that fail
	FaultKind       string      `json:"fault_kind,omitempty"`
	FinRemFaults    []int       `json:"finrem_faults,omitempty"`
	Cleanup         string      `json:"cleanup,omitempty"` // "" | remove | hasno | combine
	Destroyer       bool        `json:"destroyer"`
	Pre             []TFOp      `json:"pre"`
	Actors          [][]TFOp    `json:"actors"`
}

const (
	tfCtrlName      = "TF"
	cleanupCtrlName = "CL"
)

var errTransient = errors.New("transient transform failure (injected)")

func tfImage(val string) string { return "T(" + val + ")" }

func tfMapped(c *TFCase, id string) bool { return !(c.OptionalMap && id == "r2") }

// tfWorld is the running world.
type tfWorld struct {
	*RuntimeWorld
	c              *TFCase
	out            *Outcome
	transformCalls int
	finRemCalls    int
	lastFaultStep  int64
	faultsFired    int
	triggers       map[string][]chan struct{}
	lastSkip       map[string]tfSkip // input id -> the skip that was the last transform call for it
}

// tfSkip records a transform call answered with a SkipReconcileTag error while the output already existed: the
// documented behaviour is "the error is ignored and the controller will call reconcile on next event" - the output stays.
type tfSkip struct {
	LogLen int
	Val    string // content of the existing output at the time of the call
}

// fire is called by the commit tap (in the committing task, no scheduling point) and wakes the actors waiting for it.
func (tw *tfWorld) fire(c Commit, prev map[string]Snap) {
	var keys []string
	switch {
	case c.Type == TypeB && c.Kind == "destroy":
		keys = append(keys, "out-destroyed:"+c.ID)
	case c.Type == TypeB && c.Snap.Version == "1":
		keys = append(keys, "out-created:"+c.ID)
	case c.Type == TypeB && c.Snap.Phase == "tearingDown":
		keys = append(keys, "out-td:"+c.ID)
	case c.Type == TypeA && c.Kind == "put":
		if c.Snap.Phase == "tearingDown" {
			keys = append(keys, "in-td:"+c.ID)
		}
		if p, ok := prev[c.ID]; ok && hasFin(p.Fins, tfCtrlName) && !hasFin(c.Snap.Fins, tfCtrlName) {
			keys = append(keys, "in-released:"+c.ID)
		}
	}
	for _, k := range keys {
		for _, ch := range tw.triggers[k] {
			close(ch)
		}
		delete(tw.triggers, k)
	}
}

func (tw *tfWorld) transformBody(in *A, outRes *B) error {
	tw.transformCalls++
	n := tw.transformCalls
	if tw.c.TransformMs > 0 {
		simrt.Sleep(time.Duration(tw.c.TransformMs) * time.Millisecond)
	} else {
		simrt.Yield("transform")
	}
	if tw.lastSkip != nil {
		delete(tw.lastSkip, in.Metadata().ID())
	}
	for _, f := range tw.c.Faults {
		if f == n {
			if tw.c.FaultKind == "skip" {
				if outRes.TypedSpec().Val == "" || outRes.Metadata().Phase() != resource.PhaseRunning || in.Metadata().Phase() != resource.PhaseRunning {
					break // nothing to keep yet (or the pair is already on its way out): transform normally
				}
				if tw.lastSkip == nil {
					tw.lastSkip = map[string]tfSkip{}
				}
				// the window in which "nothing else happened to the pair" starts at the commit that produced the input as
				// the controller read it (it may have read it long before this call, e.g. before a slow transform)
				from := 0
				for k := len(tw.Log) - 1; k >= 0; k-- {
					cm := tw.Log[k]
					if cm.Type == TypeA && cm.ID == in.Metadata().ID() && cm.Kind == "put" && cm.Snap.Version == in.Metadata().Version().String() {
						from = k + 1
						break
					}
				}
				tw.lastSkip[in.Metadata().ID()] = tfSkip{LogLen: from, Val: outRes.TypedSpec().Val}
				tw.faultsFired++
				tw.out.fault("transform-skip-tag")
				if tw.c.Flavour == "qtransform" {
					return xerrors.NewTaggedf[qtransform.SkipReconcileTag]("skipped on purpose")
				}
				return xerrors.NewTaggedf[transform.SkipReconcileTag]("skipped on purpose")
			}
			tw.faultsFired++
			tw.out.fault("transform-" + tw.c.FaultKind)
			switch tw.c.FaultKind {
			case "requeue-err":
				return controller.NewRequeueError(errTransient, 3*time.Second)
			case "requeue":
				// requeue without error still applies the transform
				outRes.TypedSpec().Val = tfImage(in.TypedSpec().Val)
				outRes.TypedSpec().Tokens = append([]string(nil), in.TypedSpec().Tokens...)
				return controller.NewRequeueInterval(2 * time.Second)
			default:
				return errTransient
			}
		}
	}
	outRes.TypedSpec().Val = tfImage(in.TypedSpec().Val)
	outRes.TypedSpec().Tokens = append([]string(nil), in.TypedSpec().Tokens...)
	return nil
}

func (tw *tfWorld) finRemBody() error {
	tw.finRemCalls++
	simrt.Yield("finalizer-removal")
	for _, f := range tw.c.FinRemFaults {
		if f == tw.finRemCalls {
			tw.out.fault("finalizer-removal-error")
			return errTransient
		}
	}
	return nil
}

func (tw *tfWorld) mapFunc(in *A) optional.Optional[*B] {
	if !tfMapped(tw.c, in.Metadata().ID()) {
		return optional.None[*B]()
	}
	return optional.Some(NewRes("ns1", TypeB, in.Metadata().ID(), "").(*B))
}

func (tw *tfWorld) registerControllers() error {
	c := tw.c
	outKind := controller.OutputExclusive
	if c.Shared {
		outKind = controller.OutputShared
	}
	switch c.Flavour {
	case "transform":
		var opts []transform.ControllerOption
		if c.InputFinalizers {
			opts = append(opts, transform.WithInputFinalizers())
		} else if c.IgnoreTD {
			opts = append(opts, transform.WithIgnoreTearingDownInputs())
		}
		opts = append(opts, transform.WithOutputKind(outKind))
		settings := transform.Settings[*A, *B]{
			Name:                    tfCtrlName,
			MapMetadataOptionalFunc: tw.mapFunc,
			TransformFunc: func(_ context.Context, _ controller.Reader, _ *zap.Logger, in *A, o *B) error {
				return tw.transformBody(in, o)
			},
		}
		if c.InputFinalizers {
			settings.FinalizerRemovalFunc = func(context.Context, controller.Reader, *zap.Logger, *A) error { return tw.finRemBody() }
		}
		if err := tw.RT.RegisterController(transform.NewController(settings, opts...)); err != nil {
			return err
		}
	case "qtransform":
		opts := []qtransform.ControllerOption{qtransform.WithOutputKind(outKind)}
		if c.Concurrency > 0 {
			opts = append(opts, qtransform.WithConcurrency(uint(c.Concurrency)))
		}
		if c.UseIgnoreUntil {
			opts = append(opts, qtransform.WithIgnoreTeardownUntil(c.IgnoreUntil...))
		}
		if len(c.IgnoreWhile) > 0 {
			opts = append(opts, qtransform.WithIgnoreTeardownWhile(c.IgnoreWhile...))
		}
		settings := qtransform.Settings[*A, *B]{
			Name:                    tfCtrlName,
			MapMetadataOptionalFunc: tw.mapFunc,
			UnmapMetadataFunc: func(o *B) *A {
				return NewRes("ns1", TypeA, o.Metadata().ID(), "").(*A)
			},
			TransformFunc: func(_ context.Context, _ controller.Reader, _ *zap.Logger, in *A, o *B) error {
				return tw.transformBody(in, o)
			},
			FinalizerRemovalFunc: func(context.Context, controller.Reader, *zap.Logger, *A) error { return tw.finRemBody() },
		}
		if err := tw.RT.RegisterQController(qtransform.NewQController(settings, opts...)); err != nil {
			return err
		}
	}
	if c.Destroyer {
		if err := tw.RT.RegisterQController(destroy.NewController[*A](optional.Some(uint(2)))); err != nil {
			return err
		}
	}
	if c.Cleanup != "" {
		lo := func(in *A) state.ListOption {
			return state.WithLabelQuery(resource.LabelEqual("parent", in.Metadata().ID()))
		}
		var h cleanup.Handler[*A]
		switch c.Cleanup {
		case "remove":
			h = cleanup.RemoveOutputs[*C](lo)
		case "hasno":
			h = cleanup.HasNoOutputs[*C](lo)
		default:
			// remove the label-selected children and additionally wait until the transform's output of this input is gone
			byID := func(in *A) state.ListOption {
				return state.WithIDQuery(resource.IDRegexpMatch(regexp.MustCompile("^" + regexp.QuoteMeta(in.Metadata().ID()) + "$")))
			}
			if c.Cleanup == "combine-rev" {
				h = cleanup.Combine(cleanup.HasNoOutputs[*B](byID), cleanup.RemoveOutputs[*C](lo))
			} else {
				h = cleanup.Combine(cleanup.RemoveOutputs[*C](lo), cleanup.HasNoOutputs[*B](byID))
			}
		}
		if err := tw.RT.RegisterController(cleanup.NewController(cleanup.Settings[*A]{Name: cleanupCtrlName, Handler: h})); err != nil {
			return err
		}
	}
	return nil
}

func (tw *tfWorld) doOp(ctx context.Context, op TFOp, actor string) {
	if op.SleepMs > 0 {
		simrt.Sleep(time.Duration(op.SleepMs) * time.Millisecond)
	}
	if op.After != "" {
		ch := make(chan struct{})
		if tw.triggers == nil {
			tw.triggers = map[string][]chan struct{}{}
		}
		k := op.After + ":" + op.ID
		tw.triggers[k] = append(tw.triggers[k], ch)
		if simrt.Select("actor.after", false, simrt.Recv[struct{}](ch), simrt.Recv(ctx.Done())) != 0 {
			return
		}
		tw.out.fault("reactive-actor:" + op.After + "->" + op.Kind)
	}
	simrt.Yield("actor.op")
	st := tw.St
	inPtr := resource.NewMetadata("ns1", TypeA, op.ID, resource.VersionUndefined)
	outPtr := resource.NewMetadata("ns1", TypeB, op.ID, resource.VersionUndefined)
	var err error
	switch op.Kind {
	case "create":
		err = st.Create(ctx, NewRes("ns1", TypeA, op.ID, op.Val))
	case "update":
		_, err = st.UpdateWithConflicts(ctx, inPtr, func(r resource.Resource) error {
			SpecOf(r).Val = op.Val
			return nil
		}, state.WithExpectedPhaseAny())
	case "teardown":
		_, err = st.Teardown(ctx, inPtr)
	case "destroy":
		err = st.Destroy(ctx, inPtr)
	case "infin+":
		err = st.AddFinalizer(ctx, inPtr, op.Fin)
	case "infin-":
		err = st.RemoveFinalizer(ctx, inPtr, op.Fin)
	case "outfin+":
		err = st.AddFinalizer(ctx, outPtr, op.Fin)
	case "outfin-":
		err = st.RemoveFinalizer(ctx, outPtr, op.Fin)
	case "child+":
		ch := NewRes("ns1", TypeC, "c-"+op.ID+"-"+op.Val, op.Val)
		ch.Metadata().Labels().Set("parent", op.ID)
		err = st.Create(ctx, ch)
	case "child-":
		// destroy every child of the parent that has no finalizers (an operator cleaning up)
		l, lerr := st.List(ctx, resource.NewMetadata("ns1", TypeC, "", resource.VersionUndefined), state.WithLabelQuery(resource.LabelEqual("parent", op.ID)))
		if lerr == nil {
			for _, ch := range l.Items {
				if _, terr := st.Teardown(ctx, ch.Metadata(), state.WithTeardownOwner(ch.Metadata().Owner())); terr == nil {
					_ = st.Destroy(ctx, ch.Metadata(), state.WithDestroyOwner(ch.Metadata().Owner()))
				}
			}
		}
	}
	if err == nil {
		tw.out.probe("actor-ok:" + op.Kind)
	}
}

// tfExpectation computes, from the final inputs, what the outputs must look like (C06 oracle).
func tfCheckConverged(prop string, c *TFCase, inputs, outputs map[string]Snap, log []Commit, skips map[string]tfSkip, out *Outcome) {
	ignoreUntil := map[string]bool{}
	for _, f := range c.IgnoreUntil {
		ignoreUntil[f] = true
	}
	ignoreWhile := map[string]bool{}
	for _, f := range c.IgnoreWhile {
		ignoreWhile[f] = true
	}
	usesFinalizers := c.Flavour == "qtransform" || c.InputFinalizers
	runningEq := func(in Snap) bool {
		if in.Phase == "running" {
			return true
		}
		if c.Flavour == "transform" {
			return c.IgnoreTD
		}
		for _, f := range strings.Split(in.Fins, ",") {
			if f == "" || f == tfCtrlName {
				continue
			}
			if c.UseIgnoreUntil && !ignoreUntil[f] {
				return true
			}
			if len(ignoreWhile) > 0 && ignoreWhile[f] {
				return true
			}
		}
		return false
	}
	cachedOut := ""
	for _, t := range c.RT.Cached {
		if t == TypeB {
			cachedOut = ":cached-output"
		}
	}
	fail := func(sig, format string, args ...any) {
		out.violate(prop+"/"+sig, sig+":"+c.Flavour+cachedOut, "%s\ninputs: %s\noutputs: %s\nlog: %s", fmt.Sprintf(format, args...), renderObs(inputs), renderObs(outputs), renderLogFull(log, ""))
	}
	for id, in := range inputs {
		o, have := outputs[id]
		if sk, skipped := skips[id]; skipped && tfMapped(c, id) {
			if in.Phase != "running" {
				continue // torn down after the skip: the image is legitimately the one before the skip
			}
			// the last transform call for this input was skipped while its output existed: if nothing else happened to
			// the pair since, the output is still there, untouched
			quiet := true
			for _, cm := range log[sk.LogLen:] {
				if cm.ID != id {
					continue
				}
				if cm.Type == TypeA && (cm.Kind == "destroy" || cm.Snap.Phase != "running") {
					quiet = false
				}
				if cm.Type == TypeB && !strings.HasPrefix(cm.Task, "rt") {
					quiet = false
				}
			}
			if quiet {
				switch {
				case !have:
					fail("output-removed-on-skip", "the transform of running input %s was skipped (SkipReconcileTag) while its output existed with content %q; at quiescence the output is gone", id, sk.Val)
				case o.Owner == tfCtrlName && (o.Phase != "running" || o.Val != sk.Val):
					fail("output-changed-on-skip", "the transform of running input %s was skipped (SkipReconcileTag) while its output existed with content %q; at quiescence the output is %s with content %q", id, sk.Val, o.Phase, o.Val)
				}
				out.probe("skip-checked")
			}
			continue
		}
		if !tfMapped(c, id) {
			if have && o.Owner == tfCtrlName {
				fail("orphan-output", "input %s is not mapped but an owned output exists", id)
			}
			continue
		}
		if runningEq(in) {
			switch {
			case !have:
				fail("missing-output", "input %s (%s, fins [%s]) counts as running but has no output at quiescence", id, in.Phase, in.Fins)
			case o.Owner != tfCtrlName:
				// foreign resource in the way: not the controller's
			case o.Phase == "tearingDown":
				if o.Fins == "" {
					fail("stuck-output", "output %s is tearing down without finalizers at quiescence (input running)", id)
				}
			case o.Val != tfImage(in.Val) || o.Tokens != in.Tokens:
				fail("stale-output", "output %s carries %q, the latest input content maps to %q", id, o.Val, tfImage(in.Val))
			}
			if usesFinalizers && in.Phase == "running" && !hasFin(in.Fins, tfCtrlName) && have && o.Owner == tfCtrlName {
				fail("missing-input-finalizer", "running input %s has an output but does not carry the controller's finalizer", id)
			}
			continue
		}
		// tearing down, not ignored
		if have && o.Owner == tfCtrlName {
			if o.Fins == "" || o.Phase != "tearingDown" {
				if usesFinalizers || o.Phase == "tearingDown" {
					fail("orphan-output", "input %s is tearing down but its output %s@%s (%s, fins [%s]) still exists without a foreign finalizer holding it", id, id, o.Version, o.Phase, o.Fins)
				} else if !usesFinalizers {
					fail("orphan-output", "input %s is tearing down (no input finalizers) but its output is still running at quiescence", id)
				}
			}
			continue
		}
		if usesFinalizers && hasFin(in.Fins, tfCtrlName) {
			fail("finalizer-not-released", "input %s is tearing down, its output is gone, but it still carries the controller's finalizer [%s]", id, in.Fins)
		}
	}
	for id, o := range outputs {
		if o.Owner != tfCtrlName {
			continue
		}
		if _, ok := inputs[id]; !ok {
			if !(o.Phase == "tearingDown" && o.Fins != "") {
				fail("orphan-output", "output %s@%s (%s, fins [%s]) has no input", id, o.Version, o.Phase, o.Fins)
			}
		}
	}
}

// tfCheckPrefixes evaluates the C07 safety invariants on every prefix of the commit log.
func tfCheckPrefixes(prop string, c *TFCase, log []Commit, out *Outcome) {
	A0, B0, C0 := map[string]Snap{}, map[string]Snap{}, map[string]Snap{}
	// clearSince[id]: at some instant since input id became tearing-down no dependent (as the cleanup handler counts
	// them) existed - the handler may have succeeded then; dependents created afterwards by third parties are not
	// the controller's business
	// The flag is kept per handler (the transform's output by id / the label-selected children): the handlers of a
	// Combine run one after the other, each must have seen its own dependents gone, not necessarily at the same instant
	// (another controller may re-create an output between the two checks; that is not the cleanup controller's doing).
	clearSince := map[string]bool{}
	clearOut, clearCh := map[string]bool{}, map[string]bool{}
	createdAt := map[string]int{} // dependent id -> commit index of its creation
	tdAt := map[string]int{}      // input id -> commit index at which it became tearing-down
	depOut := func(id string) []string {
		if _, ok := B0[id]; ok && (c.Cleanup == "combine" || c.Cleanup == "combine-rev") {
			return []string{"output " + id}
		}
		return nil
	}
	var depCh func(id string) []string
	dependents := func(id string) []string { return append(depOut(id), depCh(id)...) }
	depCh = func(id string) []string {
		var out []string
		for cid, ch := range C0 {
			if !strings.Contains(ch.Labels, "parent="+id+";") {
				continue
			}
			if c.Cleanup != "hasno" && ch.Owner != "" {
				continue
			}
			if td, ok := tdAt[id]; ok && createdAt[cid] > td {
				continue // created by a third party after the teardown began: not something the handler could have known
			}
			out = append(out, fmt.Sprintf("%s (owner %q, %s)", cid, ch.Owner, ch.Phase))
		}
		return out
	}
	usesFinalizers := c.Flavour == "qtransform" || c.InputFinalizers
	cachedOut := ""
	for _, t := range c.RT.Cached {
		if t == TypeB {
			cachedOut = ":cached-output"
		}
	}
	fail := func(sig string, idx int, format string, args ...any) {
		out.violate(prop+"/"+sig, sig+":"+c.Flavour+cachedOut, "after commit %d: %s\nlog: %s", idx, fmt.Sprintf(format, args...), renderLogFull(log[:idx+1], ""))
	}
	for i, cm := range log {
		var m map[string]Snap
		switch cm.Type {
		case TypeA:
			m = A0
		case TypeB:
			m = B0
		case TypeC:
			m = C0
		default:
			continue
		}
		prev, existed := m[cm.ID]
		if cm.Kind == "put" {
			m[cm.ID] = cm.Snap
		} else {
			delete(m, cm.ID)
		}
		if cm.Type == TypeC && cm.Kind == "put" && !existed {
			createdAt[cm.ID] = i
		}
		if cm.Type == TypeA && cm.Kind == "put" && cm.Snap.Phase == "tearingDown" && (!existed || prev.Phase != "tearingDown") {
			tdAt[cm.ID] = i
		}
		if cm.Type == TypeA && (cm.Kind == "destroy" || cm.Snap.Phase != "tearingDown") {
			delete(tdAt, cm.ID)
		}
		for id, in := range A0 {
			if in.Phase != "tearingDown" {
				clearOut[id], clearCh[id] = false, false
			} else {
				if len(depOut(id)) == 0 {
					clearOut[id] = true
				}
				if len(depCh(id)) == 0 {
					clearCh[id] = true
				}
			}
			clearSince[id] = clearOut[id] && clearCh[id]
		}
		if cm.Type == TypeA && cm.Kind == "destroy" {
			delete(clearSince, cm.ID)
			delete(clearOut, cm.ID)
			delete(clearCh, cm.ID)
		}
		switch cm.Type {
		case TypeB:
			if cm.Kind == "destroy" && existed && prev.Owner == tfCtrlName {
				// I2: destroyed only after tearing down, with no finalizers
				if prev.Phase != "tearingDown" || prev.Fins != "" {
					fail("output-destroyed-unsafely", i, "owned output %s destroyed while %s with finalizers [%s]", cm.ID, prev.Phase, prev.Fins)
					return
				}
			}
			if cm.Kind == "put" && cm.Snap.Owner == tfCtrlName && usesFinalizers && !existed {
				// I1 (first existence): the finalizer must already be on the input
				in, ok := A0[cm.ID]
				if !ok || !hasFin(in.Fins, tfCtrlName) {
					fail("output-before-finalizer", i, "output %s was created while its input %s", cm.ID, map[bool]string{true: "does not carry the controller's finalizer (fins [" + in.Fins + "], " + in.Phase + ")", false: "does not exist"}[ok])
					return
				}
			}
		case TypeA:
			if o, ok := B0[cm.ID]; ok && o.Owner == tfCtrlName && usesFinalizers {
				if cm.Kind == "destroy" {
					// I4
					fail("input-destroyed-before-output", i, "input %s destroyed while its derived output %s@%s still exists", cm.ID, o.ID, o.Version)
					return
				}
				if existed && hasFin(prev.Fins, tfCtrlName) && !hasFin(cm.Snap.Fins, tfCtrlName) {
					// I1 (until after the output is destroyed)
					fail("finalizer-released-early", i, "the controller's finalizer left input %s (by %s) while its output %s@%s (%s) still exists", cm.ID, cm.Task, o.ID, o.Version, o.Phase)
					return
				}
			}
			if c.Cleanup != "" && cm.Kind == "put" && existed && hasFin(prev.Fins, cleanupCtrlName) && !hasFin(cm.Snap.Fins, cleanupCtrlName) && prev.Phase == "tearingDown" {
				// I3: the removal handler can only have succeeded at an instant without dependents
				if !clearSince[cm.ID] {
					fail("cleanup-released-early", i, "cleanup controller released its finalizer on torn-down input %s although the dependents of one of its handlers existed at every instant since the teardown (output gone at some instant: %v, children gone at some instant: %v): now %v", cm.ID, clearOut[cm.ID], clearCh[cm.ID], dependents(cm.ID))
					return
				}
			}
		}
	}
}
