package simrt

// RNG is a small deterministic PRNG (splitmix64 seeded xorshift*).
type RNG struct{ s uint64 }

// SplitMix64 is the seed-derivation function used everywhere.
func SplitMix64(x uint64) uint64 {
	x += 0x9e3779b97f4a7c15
	z := x
	z = (z ^ (z >> 30)) * 0xbf58476d1ce4e5b9
	z = (z ^ (z >> 27)) * 0x94d049bb133111eb
	return z ^ (z >> 31)
}

// Mix derives a seed from several values.
func Mix(vals ...uint64) uint64 {
	h := uint64(0x243f6a8885a308d3)
	for _, v := range vals {
		h = SplitMix64(h ^ v)
	}
	return h
}

// NewRNG returns a PRNG for the seed.
func NewRNG(seed uint64) *RNG {
	r := &RNG{s: SplitMix64(seed)}
	if r.s == 0 {
		r.s = 1
	}
	return r
}

// Uint64 returns the next value.
func (r *RNG) Uint64() uint64 {
	r.s ^= r.s >> 12
	r.s ^= r.s << 25
	r.s ^= r.s >> 27
	return r.s * 2685821657736338717
}

// Intn returns a value in [0,n).
func (r *RNG) Intn(n int) int {
	if n <= 1 {
		return 0
	}
	return int(r.Uint64() % uint64(n))
}

// Float64 returns a value in [0,1).
func (r *RNG) Float64() float64 { return float64(r.Uint64()>>11) / float64(1<<53) }

// Bool returns true with probability p.
func (r *RNG) Bool(p float64) bool { return r.Float64() < p }

// Pick returns a random element index weighted by w.
func (r *RNG) Pick(w []int) int {
	tot := 0
	for _, x := range w {
		tot += x
	}
	if tot == 0 {
		return 0
	}
	k := r.Intn(tot)
	for i, x := range w {
		if k < x {
			return i
		}
		k -= x
	}
	return len(w) - 1
}

// Perm returns a permutation of [0,n).
func (r *RNG) Perm(n int) []int {
	p := make([]int, n)
	for i := range p {
		p[i] = i
	}
	for i := n - 1; i > 0; i-- {
		j := r.Intn(i + 1)
		p[i], p[j] = p[j], p[i]
	}
	return p
}
