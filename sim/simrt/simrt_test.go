package simrt

import (
	"sync"
	"testing"
	"time"
)

func runOnce(t *testing.T, seed uint64) (uint64, int64, int) {
	var total int
	st, panics, berr := Run(t, Config{Seed: seed, Policy: Policy{Kind: "walk", SwitchProb: 0.3}}, func(s *Sim) {
		var mu sync.Mutex
		cond := sync.NewCond(&mu)
		ch := make(chan int)
		ready := false
		for i := 0; i < 3; i++ {
			s.Spawn("w"+string(rune('0'+i)), func() {
				for j := 0; j < 20; j++ {
					Lock(&mu, "w.lock")
					total++
					Unlock(&mu)
					if j%5 == 0 {
						Sleep(time.Duration(j) * time.Second)
					}
					ChanSend("w.send", ch, j)
				}
			})
		}
		s.Spawn("r", func() {
			for k := 0; k < 60; k++ {
				c := Recv(ch)
				tm := Recv(time.After(time.Hour))
				if Select("r.sel", false, c, tm) != 0 {
					panic("timeout")
				}
			}
			Lock(&mu, "r.lock")
			ready = true
			CondBroadcast(cond)
			Unlock(&mu)
		})
		s.Spawn("c", func() {
			Lock(&mu, "c.lock")
			for !ready {
				CondWait(cond, "c.wait")
			}
			Unlock(&mu)
		})
		if r := s.Settle(100000); r != Quiescent {
			t.Fatalf("not quiescent: %v live=%v", r, s.Live())
		}
		if n := s.LiveCount(); n != 0 {
			t.Fatalf("live: %v", s.Live())
		}
	})
	if len(panics) > 0 || berr != "" {
		t.Fatalf("panics=%v berr=%v", panics, berr)
	}
	if total != 60 {
		t.Fatalf("total=%d", total)
	}
	return st.TraceHash, st.Steps, st.Adoptions
}

func TestDeterminism(t *testing.T) {
	start := time.Now()
	n := 0
	for seed := uint64(1); seed <= 200; seed++ {
		h1, s1, a1 := runOnce(t, seed)
		h2, s2, _ := runOnce(t, seed)
		if h1 != h2 || s1 != s2 {
			t.Fatalf("seed %d: %x/%d vs %x/%d", seed, h1, s1, h2, s2)
		}
		if a1 != 0 {
			t.Fatalf("adoptions %d", a1)
		}
		n += int(s1 + s2)
	}
	t.Logf("%d steps in %v", n, time.Since(start))
}
