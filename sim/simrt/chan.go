package simrt

import (
	"context"
	"fmt"
	"reflect"
	"sort"

	"golang.org/x/sync/errgroup"
	"golang.org/x/time/rate"
)

// SelCase is one case of a determinised select.
type SelCase interface {
	try() bool
	refl() reflect.SelectCase
	done(v reflect.Value, ok bool)
}

// RecvC is a receive case.
type RecvC[T any] struct {
	ch <-chan T
	V  T
	OK bool
}

// Recv builds a receive case.
func Recv[T any](ch <-chan T) *RecvC[T] { return &RecvC[T]{ch: ch} }

func (c *RecvC[T]) try() bool {
	select {
	case c.V, c.OK = <-c.ch:
		return true
	default:
		return false
	}
}

func (c *RecvC[T]) refl() reflect.SelectCase {
	return reflect.SelectCase{Dir: reflect.SelectRecv, Chan: reflect.ValueOf(c.ch)}
}

func (c *RecvC[T]) done(v reflect.Value, ok bool) {
	c.OK = ok
	if ok {
		reflect.ValueOf(&c.V).Elem().Set(v)
	} else {
		var z T
		c.V = z
	}
}

// SendC is a send case.
type SendC[T any] struct {
	ch chan<- T
	v  T
}

// Send builds a send case.
func Send[T any](ch chan<- T, v T) *SendC[T] { return &SendC[T]{ch: ch, v: v} }

func (c *SendC[T]) try() bool {
	select {
	case c.ch <- c.v:
		return true
	default:
		return false
	}
}

func (c *SendC[T]) refl() reflect.SelectCase {
	return reflect.SelectCase{Dir: reflect.SelectSend, Chan: reflect.ValueOf(c.ch), Send: reflect.ValueOf(&c.v).Elem()}
}

func (c *SendC[T]) done(reflect.Value, bool) {}

// Select is the determinised select: it returns the index of the case that
// fired, or -1 for the default branch. Ready cases are polled in an order
// chosen by the scheduler PRNG; only if none is ready (and there is no
// default) does the task block in a real select, after which it re-parks.
func Select(site string, hasDefault bool, cases ...SelCase) int {
	s := current.Load()
	var t *Task
	if s != nil && !s.dead.Load() {
		t = s.me()
	}
	if t == nil {
		return plainSelect(hasDefault, cases)
	}
	s.park(t, stParked, site)
	n := len(cases)
	start := 0
	if n > 1 {
		s.mu.Lock()
		start = s.rng.Intn(n)
		s.mu.Unlock()
	}
	fired := -1
	for i := 0; i < n; i++ {
		k := (start + i) % n
		if cases[k].try() {
			fired = k
			break
		}
	}
	if fired >= 0 {
		return fired
	}
	if hasDefault {
		return -1
	}
	s.mu.Lock()
	s.stats.SelectBlock++
	t.blockedReal = site
	s.mu.Unlock()
	rc := make([]reflect.SelectCase, n)
	for i, c := range cases {
		rc[i] = c.refl()
	}
	i, v, ok := reflect.Select(rc)
	cases[i].done(v, ok)
	s.park(t, stParked, site+"+")
	return i
}

func plainSelect(hasDefault bool, cases []SelCase) int {
	rc := make([]reflect.SelectCase, 0, len(cases)+1)
	for _, c := range cases {
		rc = append(rc, c.refl())
	}
	if hasDefault {
		rc = append(rc, reflect.SelectCase{Dir: reflect.SelectDefault})
	}
	i, v, ok := reflect.Select(rc)
	if i == len(cases) {
		return -1
	}
	cases[i].done(v, ok)
	return i
}

// ChanSend replaces a plain `ch <- v` statement.
func ChanSend[T any](site string, ch chan<- T, v T) {
	Yield(site)
	ch <- v
	Yield(site + "+")
}

// ChanRecv replaces a plain `<-ch` expression.
func ChanRecv[T any](site string, ch <-chan T) T {
	Yield(site)
	v := <-ch
	Yield(site + "+")
	return v
}

// ChanRecv2 replaces `v, ok := <-ch`.
func ChanRecv2[T any](site string, ch <-chan T) (T, bool) {
	Yield(site)
	v, ok := <-ch
	Yield(site + "+")
	return v, ok
}

// ChanClose replaces close(ch): woken receivers re-park at their post-yields.
func ChanClose[T any](site string, ch chan<- T) {
	close(ch)
}

// SendWithContext replaces siderolabs/gen/channel.SendWithContext.
func SendWithContext[T any](ctx context.Context, ch chan<- T, val T) bool {
	if current.Load() == nil {
		select {
		case <-ctx.Done():
			return false
		case ch <- val:
			return true
		}
	}
	// same preference as the original: ctx first when both ready? The original is a plain two-case select
	// (random when both ready) — determinised here.
	d := Recv(ctx.Done())
	sc := Send(ch, val)
	return Select("SendWithContext", false, d, sc) == 1
}

// MapKeys returns the keys of m in a deterministic order (sorted by printed
// form), optionally permuted by the scheduler PRNG when the run's policy asks
// for map-order exploration.
func MapKeys[M ~map[K]V, K comparable, V any](m M) []K {
	keys := make([]K, 0, len(m))
	for k := range m {
		keys = append(keys, k)
	}
	if len(keys) < 2 {
		return keys
	}
	strs := make([]string, len(keys))
	idx := make([]int, len(keys))
	for i, k := range keys {
		strs[i] = keyString(k)
		idx[i] = i
	}
	sort.Slice(idx, func(a, b int) bool { return strs[idx[a]] < strs[idx[b]] })
	out := make([]K, len(keys))
	for i, j := range idx {
		out[i] = keys[j]
	}
	if s := current.Load(); s != nil && s.cfg.Policy.PermuteMaps && !s.dead.Load() {
		s.mu.Lock()
		for i := len(out) - 1; i > 0; i-- {
			j := s.rng.Intn(i + 1)
			out[i], out[j] = out[j], out[i]
		}
		s.mu.Unlock()
	}
	return out
}

func keyString(k any) string {
	switch v := k.(type) {
	case string:
		return v
	case fmt.Stringer:
		rv := reflect.ValueOf(k)
		if rv.Kind() == reflect.Pointer {
			break
		}
		return v.String()
	}
	rv := reflect.ValueOf(k)
	if rv.Kind() == reflect.Pointer || rv.Kind() == reflect.Chan || rv.Kind() == reflect.UnsafePointer {
		// pointer identity has no stable order: the instrumenter must not let this happen
		panic(fmt.Sprintf("simrt.MapKeys: pointer-typed map key %T has no deterministic order", k))
	}
	return fmt.Sprintf("%v", k)
}

// ErrgroupGo replaces (*errgroup.Group).Go.
func ErrgroupGo(g *errgroup.Group, site string, f func() error) {
	if current.Load() == nil {
		g.Go(f)
		return
	}
	t := NewChild(site)
	g.Go(func() (err error) {
		t.Enter()
		defer t.Leave()
		return f()
	})
}

// ErrgroupWait replaces (*errgroup.Group).Wait.
func ErrgroupWait(g *errgroup.Group, site string) error {
	Yield(site)
	err := g.Wait()
	Yield(site + "+")
	return err
}

// SendAnyC is a reflection-based send case (the static element type may be an
// interface or need an untyped-constant conversion, which generic inference cannot express).
type SendAnyC struct {
	ch reflect.Value
	v  reflect.Value
}

// SendAny builds a send case from any channel and any value.
func SendAny(ch any, v any) *SendAnyC {
	c := &SendAnyC{ch: reflect.ValueOf(ch)}
	et := c.ch.Type().Elem()
	rv := reflect.ValueOf(v)
	switch {
	case !rv.IsValid():
		rv = reflect.Zero(et)
	case rv.Type().AssignableTo(et):
		if rv.Type() != et {
			nv := reflect.New(et).Elem()
			nv.Set(rv)
			rv = nv
		}
	case rv.Type().ConvertibleTo(et):
		rv = rv.Convert(et)
	}
	c.v = rv
	return c
}

func (c *SendAnyC) try() bool {
	if c.ch.IsNil() {
		return false
	}
	return c.ch.TrySend(c.v)
}

func (c *SendAnyC) refl() reflect.SelectCase {
	return reflect.SelectCase{Dir: reflect.SelectSend, Chan: c.ch, Send: c.v}
}

func (c *SendAnyC) done(reflect.Value, bool) {}

// LimiterWait replaces (*rate.Limiter).Wait.
func LimiterWait(l *rate.Limiter, site string, ctx context.Context) error {
	Yield(site)
	err := l.Wait(ctx)
	Yield(site + "+")
	return err
}
