// Package simrt is the deterministic simulation runtime: a token-passing
// scheduler on top of testing/synctest. Exactly one task executes program
// logic at any time; which one is decided by a seeded PRNG owned by the
// scheduler. See /verif/DESIGN.md §2.
//
// This package is overlaid into the repository module at
// pkg/controller/runtime/zzverif/simrt by the instrumenter; instrumented
// copies of the repository sources call into it at every scheduling point.
// With no simulation active every entry point falls back to the plain Go
// behaviour.
package simrt

import (
	"fmt"
	"hash/fnv"
	"math/rand"
	"runtime"
	"sort"
	"strconv"
	"strings"
	"sync"
	"sync/atomic"
	"testing"
	"testing/synctest"
	"time"
)

type taskState int

const (
	stParked  taskState = iota // parked at a yield, runnable
	stRunning                  // holds the token (or is between a real wake-up and its post-yield)
	stMutex                    // parked, waiting for a sim-level mutex
	stCond                     // parked, waiting for a sim-level cond signal
	stDone
)

// Task is one managed goroutine.
type Task struct {
	ID     string
	site   string
	state  taskState
	wake   chan struct{}
	nchild int
	mu     any // mutex waited for
	cond   *sync.Cond
	goid   uint64
	killed bool
	// Starve: scheduler skips this task until step >= starveUntil (unless nothing else runnable).
	starveUntil int64
	prio        int64
	spawnSite   string
	blockedReal string // last site before a real blocking op, for diagnostics
	pcount      map[string]uint32
	atomic      int // >0: inside Atomic: scheduling points are skipped
}

// Policy is a schedule policy.
type Policy struct {
	Kind       string  `json:"kind"` // "walk", "pct", "rr"
	SwitchProb float64 `json:"switch_prob,omitempty"`
	PCTDepth   int     `json:"pct_depth,omitempty"`
	PCTSpan    int     `json:"pct_span,omitempty"`
	// StarvePrefix / StarveSteps: tasks whose id has the prefix are not
	// scheduled for StarveSteps steps starting at StarveFrom (a stalled party).
	StarvePrefix string  `json:"starve_prefix,omitempty"`
	StarveFrom   int64   `json:"starve_from,omitempty"`
	StarveSteps  int64   `json:"starve_steps,omitempty"`
	PermuteMaps  bool    `json:"permute_maps,omitempty"`
	PreemptProb  float64 `json:"preempt_prob,omitempty"`
}

// Config of one simulated run.
type Config struct {
	Seed     uint64
	Policy   Policy
	Horizon  time.Duration // quiescence horizon
	MaxSteps int64         // hard cap over the whole run
	Trace    bool          // keep the full step trace (replay -v)
}

// Stats of one run.
type Stats struct {
	Steps       int64
	Switches    int64
	Tasks       int
	Adoptions   int
	SimTime     time.Duration
	Quiescences int
	TraceHash   uint64
	SwitchPairs map[string]int
	MutexBlocks int64
	CondWaits   int64
	SelectBlock int64
	SelectMulti int64 // selects that had more than one ready case (determinised)
	Preemptions int64
	Trace       []string `json:"-"`
}

// PanicInfo records an unrecovered panic in a task (the process would have crashed).
type PanicInfo struct {
	Task  string
	Value string
	Stack string
}

// Sim is one simulation.
type Sim struct {
	mu           sync.Mutex // guards everything below; held for O(1) only
	cfg          Config
	rng          *RNG // scheduler decisions
	tasks        []*Task
	byGoid       map[uint64]*Task
	cur          *Task
	notify       chan struct{}
	step         int64
	start        time.Time
	stats        Stats
	hash         uint64
	trace        []string
	panics       []PanicInfo
	rootGID      uint64
	dead         atomic.Bool
	nroot        int
	pctChange    map[int64]bool
	condQ        map[*sync.Cond][]*Task
	lastSite     string
	lastTask     string
	stepLimitHit bool
	pendingNew   int // tasks created but goroutine not yet bound
}

var current atomic.Pointer[Sim]

// Active reports whether a simulation is running.
func Active() bool { return current.Load() != nil }

// Cur returns the active simulation or nil.
func Cur() *Sim { return current.Load() }

func goid() uint64 {
	var buf [40]byte
	n := runtime.Stack(buf[:], false)
	// "goroutine 123 ["
	s := buf[10:n]
	var id uint64
	for _, c := range s {
		if c < '0' || c > '9' {
			break
		}
		id = id*10 + uint64(c-'0')
	}
	return id
}

// Run executes main inside a fresh synctest bubble with a fresh Sim.
// main runs on the scheduler goroutine: it spawns tasks and calls Settle /
// RunFor to let them execute. It returns the stats and any recovered
// end-of-bubble complaint.
func Run(t *testing.T, cfg Config, main func(s *Sim)) (st Stats, panics []PanicInfo, bubbleErr string) {
	if cfg.Horizon == 0 {
		cfg.Horizon = 10 * time.Minute
	}
	if cfg.MaxSteps == 0 {
		cfg.MaxSteps = 2_000_000
	}
	// the global math/rand source (used by cenkalti/backoff jitter) is re-seeded per run; effective
	// because the worker runs with GODEBUG=randseednop=0
	rand.Seed(int64(cfg.Seed)) //nolint:staticcheck
	var s *Sim
	func() {
		defer func() {
			if r := recover(); r != nil {
				bubbleErr = fmt.Sprint(r)
			}
			current.Store(nil)
		}()
		synctest.Test(t, func(t *testing.T) {
			s = &Sim{
				cfg:     cfg,
				rng:     NewRNG(cfg.Seed ^ 0x9e3779b97f4a7c15),
				byGoid:  map[uint64]*Task{},
				notify:  make(chan struct{}, 1),
				start:   time.Now(),
				rootGID: goid(),
				condQ:   map[*sync.Cond][]*Task{},
			}
			s.stats.SwitchPairs = map[string]int{}
			s.hash = 1469598103934665603
			if cfg.Policy.Kind == "pct" {
				s.pctChange = map[int64]bool{}
				span := int64(cfg.Policy.PCTSpan)
				if span <= 0 {
					span = 400
				}
				for i := 0; i < cfg.Policy.PCTDepth; i++ {
					s.pctChange[int64(s.rng.Intn(int(span)))] = true
				}
			}
			current.Store(s)
			defer func() {
				// kill whatever is still parked so that the bubble can end
				s.killAll()
				current.Store(nil)
				s.dead.Store(true)
			}()
			main(s)
			s.stats.SimTime = time.Since(s.start)
		})
	}()
	if s != nil {
		s.stats.TraceHash = s.hash
		s.stats.Steps = s.step
		st = s.stats
		st.Trace = s.trace
		panics = s.panics
	}
	return st, panics, bubbleErr
}

// Now returns the simulated time elapsed since the start of the run.
func (s *Sim) Now() time.Duration { return time.Since(s.start) }

// Step returns the number of scheduling decisions taken so far.
func (s *Sim) Step() int64 { return atomic.LoadInt64(&s.step) }

// StepLimitHit reports whether the hard step cap was reached.
func (s *Sim) StepLimitHit() bool { return s.stepLimitHit }

// Panics returns unrecovered task panics so far.
func (s *Sim) Panics() []PanicInfo {
	s.mu.Lock()
	defer s.mu.Unlock()
	return append([]PanicInfo(nil), s.panics...)
}

// Trace returns the recorded step trace (Config.Trace).
func (s *Sim) Trace() []string { return s.trace }

// Note mixes a harness observation (an operation result) into the trace hash.
func (s *Sim) Note(format string, args ...any) {
	msg := fmt.Sprintf(format, args...)
	s.mu.Lock()
	s.mix(msg)
	if s.cfg.Trace {
		s.trace = append(s.trace, fmt.Sprintf("      note %s", msg))
	}
	s.mu.Unlock()
}

func (s *Sim) mix(str string) {
	h := s.hash
	for i := 0; i < len(str); i++ {
		h ^= uint64(str[i])
		h *= 1099511628211
	}
	h ^= 0xff
	h *= 1099511628211
	s.hash = h
}

func (s *Sim) me() *Task {
	g := goid()
	if g == s.rootGID {
		return nil
	}
	s.mu.Lock()
	t := s.byGoid[g]
	if t == nil {
		// unknown goroutine: adopt (counted; must stay 0 for the determinism claim)
		s.stats.Adoptions++
		t = &Task{ID: "adopted/" + strconv.Itoa(s.stats.Adoptions), wake: make(chan struct{}, 1), state: stRunning, goid: g}
		s.tasks = append(s.tasks, t)
		s.byGoid[g] = t
	}
	s.mu.Unlock()
	return t
}

// Me returns the id of the calling task ("" for the scheduler goroutine or outside a simulation).
func Me() string {
	s := current.Load()
	if s == nil {
		return ""
	}
	if t := s.me(); t != nil {
		return t.ID
	}
	return ""
}

// Spawn creates a top-level task with a stable, caller-chosen name.
func (s *Sim) Spawn(name string, f func()) {
	s.spawn(name, "spawn:"+name, f)
}

func (s *Sim) spawn(id, site string, f func()) *Task {
	t := &Task{ID: id, wake: make(chan struct{}, 1), state: stParked, site: site, spawnSite: site}
	s.mu.Lock()
	s.tasks = append(s.tasks, t)
	s.stats.Tasks++
	s.pendingNew++
	s.mu.Unlock()
	go func() {
		g := goid()
		s.mu.Lock()
		t.goid = g
		s.byGoid[g] = t
		s.pendingNew--
		s.mu.Unlock()
		<-t.wake
		defer s.exit(t)
		if t.killed {
			return
		}
		f()
	}()
	return t
}

func (s *Sim) exit(t *Task) {
	r := recover()
	s.mu.Lock()
	if r != nil {
		if _, ok := r.(killSentinel); !ok {
			buf := make([]byte, 8192)
			n := runtime.Stack(buf, false)
			s.panics = append(s.panics, PanicInfo{Task: t.ID, Value: fmt.Sprint(r), Stack: string(buf[:n])})
		}
	}
	t.state = stDone
	delete(s.byGoid, t.goid)
	s.mu.Unlock()
	s.poke()
}

type killSentinel struct{}

func (s *Sim) poke() {
	select {
	case s.notify <- struct{}{}:
	default:
	}
}

// Go is what every `go` statement of instrumented code becomes.
func Go(site string, f func()) {
	s := current.Load()
	if s == nil {
		go f()
		return
	}
	var id string
	if p := s.me(); p != nil {
		s.mu.Lock()
		id = p.ID + "/" + strconv.Itoa(p.nchild)
		p.nchild++
		s.mu.Unlock()
	} else {
		s.mu.Lock()
		id = "root/" + strconv.Itoa(s.nroot)
		s.nroot++
		s.mu.Unlock()
	}
	s.spawn(id, site, f)
}

// NewChild pre-registers a child task of the calling task whose goroutine is
// created by foreign code (errgroup); the goroutine must call Enter first thing.
func NewChild(site string) *Task {
	s := current.Load()
	if s == nil {
		return nil
	}
	var id string
	if p := s.me(); p != nil {
		s.mu.Lock()
		id = p.ID + "/" + strconv.Itoa(p.nchild)
		p.nchild++
	} else {
		s.mu.Lock()
		id = "root/" + strconv.Itoa(s.nroot)
		s.nroot++
	}
	t := &Task{ID: id, wake: make(chan struct{}, 1), state: stParked, site: site, spawnSite: site}
	s.tasks = append(s.tasks, t)
	s.stats.Tasks++
	s.pendingNew++
	s.mu.Unlock()
	return t
}

// Enter binds the calling goroutine to a pre-registered task and waits for the token.
func (t *Task) Enter() {
	s := current.Load()
	if s == nil || t == nil {
		return
	}
	g := goid()
	s.mu.Lock()
	t.goid = g
	s.byGoid[g] = t
	s.pendingNew--
	s.mu.Unlock()
	<-t.wake
	if t.killed {
		runtime.Goexit()
	}
}

// Leave ends a task started with Enter. Call it deferred.
func (t *Task) Leave() {
	s := current.Load()
	if s == nil || t == nil {
		return
	}
	r := recover()
	if r != nil {
		if _, ok := r.(killSentinel); !ok {
			// re-panic into foreign code is not possible to observe deterministically: record.
			s.mu.Lock()
			buf := make([]byte, 8192)
			n := runtime.Stack(buf, false)
			s.panics = append(s.panics, PanicInfo{Task: t.ID, Value: fmt.Sprint(r), Stack: string(buf[:n])})
			s.mu.Unlock()
		}
	}
	s.mu.Lock()
	t.state = stDone
	delete(s.byGoid, t.goid)
	s.mu.Unlock()
	s.poke()
}

// Atomic runs f without any scheduling point for the calling task: used around calls into uninstrumented code that
// holds a real lock while calling back into instrumented code (a bbolt transaction invoking the load handler) -
// parking there would block other tasks on that real lock, which the scheduler cannot see.
func Atomic(f func()) {
	s := current.Load()
	var t *Task
	if s != nil && !s.dead.Load() {
		t = s.me()
	}
	if t == nil {
		f()
		return
	}
	t.atomic++
	defer func() { t.atomic-- }()
	f()
}

func atomicEnterNoYield() func() {
	s := current.Load()
	var t *Task
	if s != nil && !s.dead.Load() {
		t = s.me()
	}
	if t == nil {
		return func() {}
	}
	t.atomic++
	return func() { t.atomic-- }
}

// Atomic0 wraps the body of a sync.Once / sync.OnceFunc: no scheduling point inside.
func Atomic0(f func()) func() {
	return func() {
		defer atomicEnterNoYield()()
		f()
	}
}

// Atomic1 wraps the body of a sync.OnceValue.
func Atomic1[T any](f func() T) func() T {
	return func() T {
		defer atomicEnterNoYield()()
		return f()
	}
}

// Atomic2 wraps the body of a sync.OnceValues.
func Atomic2[T1, T2 any](f func() (T1, T2)) func() (T1, T2) {
	return func() (T1, T2) {
		defer atomicEnterNoYield()()
		return f()
	}
}

// AtomicEnter starts an atomic section of the calling task (after one scheduling point) and returns the function
// that ends it.
func AtomicEnter(site string) func() {
	s := current.Load()
	var t *Task
	if s != nil && !s.dead.Load() {
		t = s.me()
	}
	if t == nil {
		return func() {}
	}
	if t.atomic == 0 {
		s.park(t, stParked, site)
	}
	t.atomic++
	return func() { t.atomic-- }
}

// park marks t parked in the given state and blocks until the scheduler wakes it.
func (s *Sim) park(t *Task, st taskState, site string) {
	if t.atomic > 0 {
		if st != stParked {
			panic("simrt: task would block on " + site + " inside an Atomic section")
		}
		return
	}
	s.mu.Lock()
	t.state = st
	t.site = site
	s.mu.Unlock()
	s.poke()
	<-t.wake
	if t.killed {
		runtime.Goexit()
	}
}

// Yield is a scheduling point.
func Yield(site string) {
	s := current.Load()
	if s == nil || s.dead.Load() {
		return
	}
	t := s.me()
	if t == nil {
		return
	}
	s.park(t, stParked, site)
}

// P is a preemption point: a scheduling point only with the run's preemption probability.
func P(site string) {
	s := current.Load()
	if s == nil || s.cfg.Policy.PreemptProb == 0 || s.dead.Load() {
		return
	}
	t := s.me()
	if t == nil {
		return
	}
	// the decision is a pure function of (run seed, task, site, how often this task passed this site): it does not
	// consume the scheduler PRNG, so a preemption point that is only reached on some runs (one-time initialisation)
	// cannot shift any other decision
	s.mu.Lock()
	if t.pcount == nil {
		t.pcount = map[string]uint32{}
	}
	n := t.pcount[site]
	t.pcount[site] = n + 1
	h := fnv.New64a()
	h.Write([]byte(t.ID))
	h.Write([]byte{0})
	h.Write([]byte(site))
	x := SplitMix64(s.cfg.Seed ^ h.Sum64() ^ (uint64(n) * 0x9e3779b97f4a7c15))
	hit := float64(x>>11)/float64(1<<53) < s.cfg.Policy.PreemptProb
	if hit {
		s.stats.Preemptions++
	}
	s.mu.Unlock()
	if hit {
		s.park(t, stParked, site)
	}
}

func (s *Sim) runnable() []*Task {
	var r []*Task
	for _, t := range s.tasks {
		if t.state == stParked {
			r = append(r, t)
		}
	}
	return r
}

func (s *Sim) compact() {
	if len(s.tasks) < 64 {
		return
	}
	n := 0
	for _, t := range s.tasks {
		if t.state == stDone {
			n++
		}
	}
	if n*2 < len(s.tasks) {
		return
	}
	live := s.tasks[:0]
	for _, t := range s.tasks {
		if t.state != stDone {
			live = append(live, t)
		}
	}
	s.tasks = live
}

func (s *Sim) choose(r []*Task) *Task {
	sort.Slice(r, func(i, j int) bool { return r[i].ID < r[j].ID })
	p := s.cfg.Policy
	// starvation window
	if p.StarvePrefix != "" && s.step >= p.StarveFrom && s.step < p.StarveFrom+p.StarveSteps {
		var rr []*Task
		for _, t := range r {
			if !strings.HasPrefix(t.ID, p.StarvePrefix) {
				rr = append(rr, t)
			}
		}
		if len(rr) > 0 {
			r = rr
		}
	}
	switch p.Kind {
	case "rr":
		// next id after the current one, cyclically
		if s.cur != nil {
			for _, t := range r {
				if t.ID > s.cur.ID {
					return t
				}
			}
		}
		return r[0]
	case "pct":
		if s.pctChange[s.step] && s.cur != nil {
			s.cur.prio = -s.step // lowest so far
		}
		var best *Task
		for _, t := range r {
			if t.prio == 0 {
				t.prio = int64(s.rng.Intn(1_000_000)) + 1
			}
			if best == nil || t.prio > best.prio {
				best = t
			}
		}
		return best
	default: // walk
		if s.cur != nil && s.cur.state == stParked {
			in := false
			for _, t := range r {
				if t == s.cur {
					in = true
					break
				}
			}
			if in && s.rng.Float64() >= p.SwitchProb {
				return s.cur
			}
		}
		return r[s.rng.Intn(len(r))]
	}
}

// SettleResult tells how a Settle/RunFor ended.
type SettleResult int

const (
	Quiescent SettleResult = iota
	StepLimit
	TimeReached
	CondMet
)

// Settle runs tasks until the system is quiescent (nothing runnable and no
// timer due within the horizon), or maxSteps further scheduling steps were taken.
func (s *Sim) Settle(maxSteps int64) SettleResult {
	return s.run(maxSteps, -1, nil)
}

// RunFor runs tasks for d of simulated time (or until quiescent / maxSteps).
func (s *Sim) RunFor(d time.Duration, maxSteps int64) SettleResult {
	return s.run(maxSteps, d, nil)
}

// RunUntil runs until cond() (evaluated between steps on the scheduler goroutine) holds.
func (s *Sim) RunUntil(maxSteps int64, cond func() bool) SettleResult {
	return s.run(maxSteps, -1, cond)
}

func (s *Sim) run(maxSteps int64, d time.Duration, cond func() bool) SettleResult {
	limit := s.step + maxSteps
	var deadline time.Time
	if d >= 0 {
		deadline = time.Now().Add(d)
	}
	for {
		synctest.Wait()
		if cond != nil && cond() {
			return CondMet
		}
		s.mu.Lock()
		if s.pendingNew > 0 {
			// cannot happen after Wait: spawned goroutines have bound themselves
			s.mu.Unlock()
			panic("simrt: unbound task after Wait")
		}
		r := s.runnable()
		if len(r) == 0 {
			s.mu.Unlock()
			// nothing runnable: let virtual time advance to the next timer, or declare quiescence
			wait := s.cfg.Horizon
			if d >= 0 {
				rem := time.Until(deadline)
				if rem <= 0 {
					return TimeReached
				}
				if rem < wait {
					wait = rem
				}
			}
			// drain stale notification
			select {
			case <-s.notify:
			default:
			}
			tm := time.NewTimer(wait)
			select {
			case <-s.notify:
				tm.Stop()
				continue
			case <-tm.C:
				if d >= 0 && !time.Now().Before(deadline) {
					return TimeReached
				}
				s.stats.Quiescences++
				return Quiescent
			}
		}
		if s.step >= limit || s.step >= s.cfg.MaxSteps {
			if s.step >= s.cfg.MaxSteps {
				s.stepLimitHit = true
			}
			s.mu.Unlock()
			return StepLimit
		}
		if d >= 0 && !time.Now().Before(deadline) {
			s.mu.Unlock()
			return TimeReached
		}
		t := s.choose(r)
		s.step++
		if s.cur != t {
			s.stats.Switches++
			if s.cur != nil {
				key := s.lastSite + ">" + t.site
				if len(s.stats.SwitchPairs) < 20000 {
					s.stats.SwitchPairs[key]++
				}
			}
		}
		s.cur = t
		s.lastSite = t.site
		s.mix(t.ID)
		s.mix(t.site)
		if s.cfg.Trace {
			s.trace = append(s.trace, fmt.Sprintf("%6d t=%-12v %-28s %s", s.step, time.Since(s.start), t.ID, t.site))
			if len(s.trace) > 400000 {
				s.trace = append([]string{"... (trace truncated)"}, s.trace[200000:]...)
			}
		}
		t.state = stRunning
		s.compact()
		s.mu.Unlock()
		t.wake <- struct{}{}
	}
}

// Live returns ids and sites of tasks that have not exited.
func (s *Sim) Live() []string {
	s.mu.Lock()
	defer s.mu.Unlock()
	var out []string
	for _, t := range s.tasks {
		if t.state != stDone {
			st := "blocked"
			switch t.state {
			case stParked:
				st = "runnable"
			case stMutex:
				st = "mutex"
			case stCond:
				st = "cond"
			}
			out = append(out, fmt.Sprintf("%s[%s@%s]", t.ID, st, t.site))
		}
	}
	sort.Strings(out)
	return out
}

// LiveCount returns the number of tasks that have not exited.
func (s *Sim) LiveCount() int {
	s.mu.Lock()
	defer s.mu.Unlock()
	n := 0
	for _, t := range s.tasks {
		if t.state != stDone {
			n++
		}
	}
	return n
}

func (s *Sim) killAll() {
	// wake every parked task with the kill flag; tasks blocked in real primitives stay (bubble deadlock panic is recovered by Run)
	for round := 0; round < 50; round++ {
		synctest.Wait()
		s.mu.Lock()
		var parked []*Task
		for _, t := range s.tasks {
			if t.state == stParked || t.state == stMutex || t.state == stCond {
				parked = append(parked, t)
			}
		}
		s.mu.Unlock()
		if len(parked) == 0 {
			return
		}
		s.dead.Store(true)
		for _, t := range parked {
			t.killed = true
			t.state = stRunning
			t.wake <- struct{}{}
		}
	}
}

// Sleep sleeps on the virtual clock and re-parks.
func Sleep(d time.Duration) {
	s := current.Load()
	if s == nil {
		time.Sleep(d)
		return
	}
	time.Sleep(d)
	Yield("sleep")
}

// Rand returns the workload PRNG-independent helper: a fresh RNG derived from the run seed and a label.
func (s *Sim) Rand(label string) *RNG {
	h := fnv.New64a()
	h.Write([]byte(label))
	return NewRNG(s.cfg.Seed*0x100000001b3 ^ h.Sum64())
}

// ---------------------------------------------------------------------------
// sim-level mutexes

func lockGeneric(m any, try func() bool, site string) {
	s := current.Load()
	var t *Task
	if s != nil && !s.dead.Load() {
		t = s.me()
	}
	if s == nil || t == nil {
		if s != nil && !s.dead.Load() {
			// scheduler goroutine: must never block
			if !try() {
				panic("simrt: scheduler goroutine would block on a mutex held by a parked task at " + site)
			}
			return
		}
		// dead simulation (tasks unwinding after a kill): bounded spin, then block for good
		for i := 0; i < 10000; i++ {
			if try() {
				return
			}
			runtime.Gosched()
		}
		select {}
	}
	s.park(t, stParked, site)
	for !try() {
		s.mu.Lock()
		s.stats.MutexBlocks++
		t.mu = m
		s.mu.Unlock()
		s.park(t, stMutex, site)
	}
}

func unlockGeneric(m any) {
	s := current.Load()
	if s == nil {
		return
	}
	s.mu.Lock()
	for _, t := range s.tasks {
		if t.state == stMutex && t.mu == m {
			t.state = stParked
			t.mu = nil
		}
	}
	s.mu.Unlock()
}

// Lock replaces (*sync.Mutex).Lock.
func Lock(m *sync.Mutex, site string) {
	if current.Load() == nil {
		m.Lock()
		return
	}
	lockGeneric(m, m.TryLock, site)
}

// Unlock replaces (*sync.Mutex).Unlock.
func Unlock(m *sync.Mutex) {
	m.Unlock()
	unlockGeneric(m)
}

// TryLock replaces (*sync.Mutex).TryLock.
func TryLock(m *sync.Mutex) bool { return m.TryLock() }

// WLock replaces (*sync.RWMutex).Lock.
func WLock(m *sync.RWMutex, site string) {
	if current.Load() == nil {
		m.Lock()
		return
	}
	lockGeneric(m, m.TryLock, site)
}

// WUnlock replaces (*sync.RWMutex).Unlock.
func WUnlock(m *sync.RWMutex) {
	m.Unlock()
	unlockGeneric(m)
}

// RLock replaces (*sync.RWMutex).RLock.
func RLock(m *sync.RWMutex, site string) {
	if current.Load() == nil {
		m.RLock()
		return
	}
	lockGeneric(m, m.TryRLock, site)
}

// RUnlock replaces (*sync.RWMutex).RUnlock.
func RUnlock(m *sync.RWMutex) {
	m.RUnlock()
	unlockGeneric(m)
}

// LockerLock / LockerUnlock handle sync.Locker values (Cond.L).
func LockerLock(l sync.Locker, site string) {
	switch m := l.(type) {
	case *sync.Mutex:
		Lock(m, site)
	case *sync.RWMutex:
		WLock(m, site)
	default:
		l.Lock()
	}
}

// LockerUnlock see LockerLock.
func LockerUnlock(l sync.Locker) {
	switch m := l.(type) {
	case *sync.Mutex:
		Unlock(m)
	case *sync.RWMutex:
		WUnlock(m)
	default:
		l.Unlock()
	}
}

// CondWait replaces (*sync.Cond).Wait.
func CondWait(c *sync.Cond, site string) {
	s := current.Load()
	var t *Task
	if s != nil && !s.dead.Load() {
		t = s.me()
	}
	if t == nil {
		if s != nil && !s.dead.Load() {
			panic("simrt: scheduler goroutine in Cond.Wait at " + site)
		}
		c.Wait()
		return
	}
	s.mu.Lock()
	s.stats.CondWaits++
	s.condQ[c] = append(s.condQ[c], t)
	t.cond = c
	s.mu.Unlock()
	LockerUnlock(c.L)
	s.park(t, stCond, site)
	// signalled: re-acquire (no extra pre-yield: the wake-up itself was a scheduling decision)
	reacquire(s, t, c.L, site)
}

func reacquire(s *Sim, t *Task, l sync.Locker, site string) {
	var try func() bool
	var key any
	switch m := l.(type) {
	case *sync.Mutex:
		try, key = m.TryLock, m
	case *sync.RWMutex:
		try, key = m.TryLock, m
	default:
		l.Lock()
		return
	}
	for !try() {
		s.mu.Lock()
		s.stats.MutexBlocks++
		t.mu = key
		s.mu.Unlock()
		s.park(t, stMutex, site)
	}
}

// CondSignal replaces (*sync.Cond).Signal.
func CondSignal(c *sync.Cond) {
	s := current.Load()
	if s == nil {
		c.Signal()
		return
	}
	s.mu.Lock()
	q := s.condQ[c]
	if len(q) > 0 {
		t := q[0]
		s.condQ[c] = q[1:]
		if t.state == stCond {
			t.state = stParked
			t.cond = nil
		}
	}
	s.mu.Unlock()
}

// CondBroadcast replaces (*sync.Cond).Broadcast.
func CondBroadcast(c *sync.Cond) {
	s := current.Load()
	if s == nil {
		c.Broadcast()
		return
	}
	s.mu.Lock()
	for _, t := range s.condQ[c] {
		if t.state == stCond {
			t.state = stParked
			t.cond = nil
		}
	}
	delete(s.condQ, c)
	s.mu.Unlock()
}

// WaitGroupWait replaces (*sync.WaitGroup).Wait.
func WaitGroupWait(wg *sync.WaitGroup, site string) {
	Yield(site)
	wg.Wait()
	Yield(site + "+")
}

// Blocking brackets a call into uninstrumented code that may block (limiter.Wait, errgroup.Wait, …).
func Blocking(site string, f func()) {
	Yield(site)
	f()
	Yield(site + "+")
}
