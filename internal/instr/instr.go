// Package instr rewrites the repository's sources so that every scheduling
// point (go statement, mutex/cond operation, channel operation, select,
// blocking helper, map iteration) goes through simrt. It never touches /repo:
// rewritten copies go into a scratch directory and are handed to the go tool
// through -overlay. See /verif/DESIGN.md §3.
package instr

import (
	"bytes"
	"fmt"
	"go/ast"
	"go/format"
	"go/token"
	"go/types"
	"os"
	"path/filepath"
	"sort"
	"strconv"
	"strings"

	"golang.org/x/tools/go/ast/astutil"
	"golang.org/x/tools/go/packages"
)

// SimrtPath is the import path under which simrt is overlaid into the repository module.
const SimrtPath = "github.com/cosi-project/runtime/pkg/controller/runtime/zzverif/simrt"

const simName = "zzsimrt"

// Result describes one instrumentation pass.
type Result struct {
	Files    map[string]string // original absolute path -> rewritten absolute path
	Counts   map[string]int    // rule -> rewrites
	Packages int
}

// Options for Instrument.
type Options struct {
	Repo     string   // repository root
	Out      string   // scratch directory for rewritten files
	Patterns []string // package patterns relative to Repo
	Skip     []string // import-path substrings to leave untouched
	GoBin    string   // directory holding the go tool to use
	Preempt  bool     // insert preemption points (rule R5)
}

type rewriter struct {
	fset    *token.FileSet
	info    *types.Info
	pkg     *types.Package
	file    *ast.File
	rel     string
	counts  map[string]int
	used    bool
	nvar    int
	skip    map[ast.Node]bool
	errs    []string
	preempt bool
}

// Instrument loads the packages, rewrites them and writes the copies.
func Instrument(o Options) (*Result, error) {
	env := os.Environ()
	env = append(env, "GOFLAGS=-mod=mod", "GOPROXY=off", "GOSUMDB=off", "GOTOOLCHAIN=local", "GOWORK=off")
	if o.GoBin != "" {
		env = append(env, "PATH="+o.GoBin+":"+os.Getenv("PATH"))
	}
	cfg := &packages.Config{
		Mode: packages.NeedName | packages.NeedFiles | packages.NeedCompiledGoFiles | packages.NeedSyntax |
			packages.NeedTypes | packages.NeedTypesInfo | packages.NeedImports | packages.NeedDeps,
		Dir:   o.Repo,
		Env:   env,
		Tests: false,
	}
	pkgs, err := packages.Load(cfg, o.Patterns...)
	if err != nil {
		return nil, fmt.Errorf("load: %w", err)
	}
	res := &Result{Files: map[string]string{}, Counts: map[string]int{}}
	var allErrs []string
	for _, p := range pkgs {
		if len(p.Errors) > 0 {
			for _, e := range p.Errors {
				allErrs = append(allErrs, p.PkgPath+": "+e.Error())
			}
			continue
		}
		skip := false
		for _, s := range o.Skip {
			if strings.Contains(p.PkgPath, s) {
				skip = true
			}
		}
		if skip {
			continue
		}
		res.Packages++
		for i, f := range p.Syntax {
			path := p.CompiledGoFiles[i]
			if !strings.HasPrefix(path, o.Repo+"/") || strings.HasSuffix(path, "_test.go") {
				continue
			}
			rel := strings.TrimPrefix(path, o.Repo+"/")
			rw := &rewriter{fset: p.Fset, info: p.TypesInfo, pkg: p.Types, file: f, rel: rel, counts: res.Counts, skip: map[ast.Node]bool{}, preempt: o.Preempt}
			changed := rw.rewriteFile()
			if len(rw.errs) > 0 {
				allErrs = append(allErrs, rw.errs...)
				continue
			}
			if !changed {
				continue
			}
			var buf bytes.Buffer
			if err := format.Node(&buf, p.Fset, f); err != nil {
				allErrs = append(allErrs, fmt.Sprintf("%s: print: %v", rel, err))
				continue
			}
			out := filepath.Join(o.Out, "src", rel)
			if err := os.MkdirAll(filepath.Dir(out), 0o755); err != nil {
				return nil, err
			}
			if err := os.WriteFile(out, buf.Bytes(), 0o644); err != nil {
				return nil, err
			}
			res.Files[path] = out
		}
	}
	if len(allErrs) > 0 {
		sort.Strings(allErrs)
		return res, fmt.Errorf("instrumenter could not handle:\n  %s", strings.Join(allErrs, "\n  "))
	}
	return res, nil
}

func (rw *rewriter) site(n ast.Node) ast.Expr {
	pos := rw.fset.Position(n.Pos())
	return &ast.BasicLit{Kind: token.STRING, Value: strconv.Quote(fmt.Sprintf("%s:%d", rw.rel, pos.Line))}
}

func (rw *rewriter) sim(fn string) ast.Expr {
	rw.used = true
	return &ast.SelectorExpr{X: ast.NewIdent(simName), Sel: ast.NewIdent(fn)}
}

func (rw *rewriter) call(fn string, args ...ast.Expr) *ast.CallExpr {
	return &ast.CallExpr{Fun: rw.sim(fn), Args: args}
}

func (rw *rewriter) fail(n ast.Node, msg string) {
	rw.errs = append(rw.errs, fmt.Sprintf("%s: %s", rw.fset.Position(n.Pos()), msg))
}

func (rw *rewriter) fresh(prefix string) *ast.Ident {
	rw.nvar++
	return ast.NewIdent(fmt.Sprintf("_zz%s%d", prefix, rw.nvar))
}

func (rw *rewriter) rewriteFile() bool {
	f := rw.file
	// keep build constraints and go: directives, drop every other comment (free-floating comments
	// would be misplaced by the printer once statements are replaced)
	var keep []*ast.CommentGroup
	for _, cg := range f.Comments {
		var list []*ast.Comment
		for _, c := range cg.List {
			if strings.HasPrefix(c.Text, "//go:") || strings.HasPrefix(c.Text, "// +build") {
				list = append(list, c)
			}
		}
		if len(list) > 0 && cg.End() < f.Package {
			keep = append(keep, &ast.CommentGroup{List: list})
		}
	}
	before := 0
	for _, v := range rw.counts {
		before += v
	}
	astutil.Apply(f, rw.pre, rw.post)
	after := 0
	for _, v := range rw.counts {
		after += v
	}
	if after == before {
		return false
	}
	f.Comments = keep
	// strip doc comments (they live on nodes too)
	ast.Inspect(f, func(n ast.Node) bool {
		switch x := n.(type) {
		case *ast.FuncDecl:
			x.Doc = filterDirectives(x.Doc)
		case *ast.GenDecl:
			x.Doc = filterDirectives(x.Doc)
		case *ast.Field:
			x.Doc, x.Comment = nil, nil
		case *ast.ValueSpec:
			x.Doc, x.Comment = nil, nil
		case *ast.TypeSpec:
			x.Doc, x.Comment = nil, nil
		case *ast.ImportSpec:
			x.Doc, x.Comment = nil, nil
		}
		return true
	})
	if rw.used {
		astutil.AddNamedImport(rw.fset, f, simName, SimrtPath)
	}
	// drop imports that became unused
	for _, imp := range append([]*ast.ImportSpec(nil), f.Imports...) {
		path, _ := strconv.Unquote(imp.Path.Value)
		if imp.Name != nil && (imp.Name.Name == "_" || imp.Name.Name == ".") {
			continue
		}
		if path == SimrtPath {
			continue
		}
		pn := rw.info.PkgNameOf(imp)
		if pn == nil {
			continue
		}
		if !usesName(f, pn.Name()) {
			name := ""
			if imp.Name != nil {
				name = imp.Name.Name
			}
			astutil.DeleteNamedImport(rw.fset, f, name, path)
		}
	}
	return true
}

func usesName(f *ast.File, name string) bool {
	used := false
	ast.Inspect(f, func(n ast.Node) bool {
		if sel, ok := n.(*ast.SelectorExpr); ok {
			if id, ok := sel.X.(*ast.Ident); ok && id.Name == name && id.Obj == nil {
				used = true
			}
		}
		return !used
	})
	return used
}

func filterDirectives(cg *ast.CommentGroup) *ast.CommentGroup {
	if cg == nil {
		return nil
	}
	var list []*ast.Comment
	for _, c := range cg.List {
		if strings.HasPrefix(c.Text, "//go:") {
			list = append(list, c)
		}
	}
	if len(list) == 0 {
		return nil
	}
	return &ast.CommentGroup{List: list}
}

func (rw *rewriter) pre(c *astutil.Cursor) bool {
	switch n := c.Node().(type) {
	case *ast.SelectStmt:
		// communication operations of a select are handled by the select rule, not by the plain channel rules
		for _, cl := range n.Body.List {
			cc := cl.(*ast.CommClause)
			switch s := cc.Comm.(type) {
			case *ast.SendStmt:
				rw.skip[s] = true
			case *ast.ExprStmt:
				rw.skip[ast.Unparen(s.X)] = true
			case *ast.AssignStmt:
				rw.skip[ast.Unparen(s.Rhs[0])] = true
				rw.skip[s] = true
			}
		}
	case *ast.AssignStmt:
		// v, ok := <-ch
		if len(n.Lhs) == 2 && len(n.Rhs) == 1 {
			if u, ok := ast.Unparen(n.Rhs[0]).(*ast.UnaryExpr); ok && u.Op == token.ARROW && !rw.skip[n] {
				rw.skip[u] = true
				n.Rhs[0] = rw.call("ChanRecv2", rw.site(u), u.X)
				rw.counts["chan-recv"]++
			}
		}
	}
	return true
}

func (rw *rewriter) funcName(call *ast.CallExpr) (string, *ast.SelectorExpr) {
	sel, ok := ast.Unparen(call.Fun).(*ast.SelectorExpr)
	if !ok {
		// generic instantiation f[T](...)
		if ix, ok2 := ast.Unparen(call.Fun).(*ast.IndexExpr); ok2 {
			if s2, ok3 := ix.X.(*ast.SelectorExpr); ok3 {
				sel = s2
			}
		}
		if sel == nil {
			return "", nil
		}
	}
	obj := rw.info.Uses[sel.Sel]
	fn, ok := obj.(*types.Func)
	if !ok {
		return "", nil
	}
	return fn.FullName(), sel
}

// recvPtr returns an expression of pointer type for the receiver of a method call x.M().
func (rw *rewriter) recvPtr(sel *ast.SelectorExpr) ast.Expr {
	x := sel.X
	selection := rw.info.Selections[sel]
	if selection != nil && len(selection.Index()) > 1 {
		// promoted through embedded fields: spell the path out
		t := selection.Recv()
		idx := selection.Index()
		for _, i := range idx[:len(idx)-1] {
			if p, ok := t.Underlying().(*types.Pointer); ok {
				t = p.Elem()
			}
			st, ok := t.Underlying().(*types.Struct)
			if !ok {
				rw.fail(sel, "embedded receiver path through non-struct")
				return x
			}
			fld := st.Field(i)
			x = &ast.SelectorExpr{X: x, Sel: ast.NewIdent(fld.Name())}
			t = fld.Type()
		}
		if _, ok := t.Underlying().(*types.Pointer); ok {
			return x
		}
		return &ast.UnaryExpr{Op: token.AND, X: x}
	}
	tv, ok := rw.info.Types[sel.X]
	if !ok {
		rw.fail(sel, "no type for receiver")
		return x
	}
	if _, isPtr := tv.Type.Underlying().(*types.Pointer); isPtr {
		return x
	}
	return &ast.UnaryExpr{Op: token.AND, X: &ast.ParenExpr{X: x}}
}

var methodRules = map[string]struct {
	fn   string
	site bool
}{
	"(*sync.Mutex).Lock":                       {"Lock", true},
	"(*sync.Mutex).Unlock":                     {"Unlock", false},
	"(*sync.RWMutex).Lock":                     {"WLock", true},
	"(*sync.RWMutex).Unlock":                   {"WUnlock", false},
	"(*sync.RWMutex).RLock":                    {"RLock", true},
	"(*sync.RWMutex).RUnlock":                  {"RUnlock", false},
	"(*sync.Cond).Wait":                        {"CondWait", true},
	"(*sync.Cond).Signal":                      {"CondSignal", false},
	"(*sync.Cond).Broadcast":                   {"CondBroadcast", false},
	"(*sync.WaitGroup).Wait":                   {"WaitGroupWait", true},
	"(*golang.org/x/sync/errgroup.Group).Wait": {"ErrgroupWait", true},
}

func (rw *rewriter) post(c *astutil.Cursor) bool {
	switch n := c.Node().(type) {
	case *ast.CallExpr:
		name, sel := rw.funcName(n)
		if name == "" {
			return true
		}
		if r, ok := methodRules[name]; ok {
			args := []ast.Expr{rw.recvPtr(sel)}
			if r.site {
				args = append(args, rw.site(n))
			}
			c.Replace(rw.call(r.fn, args...))
			rw.counts["sync:"+r.fn]++
			return true
		}
		switch name {
		case "(*sync.Once).Do", "sync.OnceFunc":
			// no scheduling point inside a Once body: a task parked there would hold the Once's real mutex
			n.Args[0] = rw.call("Atomic0", n.Args[0])
			rw.counts["once-atomic"]++
		case "sync.OnceValue":
			n.Args[0] = rw.call("Atomic1", n.Args[0])
			rw.counts["once-atomic"]++
		case "sync.OnceValues":
			n.Args[0] = rw.call("Atomic2", n.Args[0])
			rw.counts["once-atomic"]++
		case "(*golang.org/x/sync/errgroup.Group).Go":
			c.Replace(rw.call("ErrgroupGo", rw.recvPtr(sel), rw.site(n), n.Args[0]))
			rw.counts["errgroup-go"]++
		case "github.com/siderolabs/gen/channel.SendWithContext":
			c.Replace(rw.call("SendWithContext", n.Args...))
			rw.counts["send-with-context"]++
		case "time.Sleep":
			c.Replace(rw.call("Sleep", n.Args...))
			rw.counts["sleep"]++
		case "(*golang.org/x/time/rate.Limiter).Wait":
			c.Replace(rw.call("LimiterWait", append([]ast.Expr{sel.X, rw.site(n)}, n.Args...)...))
			rw.counts["limiter-wait"]++
		case "(*sync.WaitGroup).Go", "(*golang.org/x/sync/errgroup.Group).TryGo", "time.AfterFunc", "context.AfterFunc",
			"github.com/siderolabs/gen/channel.RecvWithContext", "github.com/siderolabs/gen/channel.TryRecv", "github.com/siderolabs/gen/channel.TrySend":
			rw.fail(n, "no rewrite rule for "+name)
		}
	case *ast.GoStmt:
		c.Replace(rw.goStmt(n))
		rw.counts["go"]++
	case *ast.SendStmt:
		if rw.skip[n] {
			return true
		}
		if _, ok := c.Parent().(*ast.BlockStmt); !ok {
			if _, ok2 := c.Parent().(*ast.CaseClause); !ok2 {
				if _, ok3 := c.Parent().(*ast.CommClause); !ok3 {
					if _, ok4 := c.Parent().(*ast.LabeledStmt); !ok4 {
						rw.fail(n, "send statement outside a statement list")
						return true
					}
				}
			}
		}
		c.Replace(&ast.BlockStmt{List: []ast.Stmt{
			&ast.ExprStmt{X: rw.call("Yield", rw.site(n))},
			n,
			&ast.ExprStmt{X: rw.call("Yield", rw.sitePlus(n))},
		}})
		rw.counts["chan-send"]++
	case *ast.UnaryExpr:
		if n.Op != token.ARROW || rw.skip[n] {
			return true
		}
		c.Replace(rw.call("ChanRecv", rw.site(n), n.X))
		rw.counts["chan-recv"]++
	case *ast.SelectStmt:
		rw.selectStmt(c, n)
	case *ast.RangeStmt:
		rw.rangeStmt(c, n)
	case *ast.FuncDecl:
		if rw.preempt && n.Body != nil && len(n.Body.List) > 0 {
			rw.insertPreempt(n.Body)
		}
	case *ast.FuncLit:
		if rw.preempt && n.Body != nil && len(n.Body.List) > 0 {
			rw.insertPreempt(n.Body)
		}
	}
	return true
}

func (rw *rewriter) insertPreempt(b *ast.BlockStmt) {
	// one preemption point at function entry; cheap no-op unless the run enables preemption
	b.List = append([]ast.Stmt{&ast.ExprStmt{X: rw.call("P", rw.site(b))}}, b.List...)
	rw.counts["preempt"]++
}

func (rw *rewriter) sitePlus(n ast.Node) ast.Expr {
	pos := rw.fset.Position(n.Pos())
	return &ast.BasicLit{Kind: token.STRING, Value: strconv.Quote(fmt.Sprintf("%s:%d+", rw.rel, pos.Line))}
}

func (rw *rewriter) isConstOrNil(e ast.Expr) bool {
	tv, ok := rw.info.Types[e]
	if !ok {
		return false
	}
	return tv.IsNil() || tv.Value != nil
}

func (rw *rewriter) goStmt(n *ast.GoStmt) ast.Stmt {
	call := n.Call
	if fl, ok := call.Fun.(*ast.FuncLit); ok && len(call.Args) == 0 {
		return &ast.ExprStmt{X: rw.call("Go", rw.site(n), fl)}
	}
	// hoist arguments so that they are evaluated at the go statement, as Go does
	var stmts []ast.Stmt
	newArgs := make([]ast.Expr, len(call.Args))
	for i, a := range call.Args {
		if rw.isConstOrNil(a) {
			newArgs[i] = a
			continue
		}
		if _, isLit := a.(*ast.FuncLit); isLit {
			newArgs[i] = a
			continue
		}
		id := rw.fresh("a")
		stmts = append(stmts, &ast.AssignStmt{Lhs: []ast.Expr{id}, Tok: token.DEFINE, Rhs: []ast.Expr{a}})
		newArgs[i] = id
	}
	fun := call.Fun
	if fl, ok := fun.(*ast.FuncLit); ok {
		id := rw.fresh("f")
		stmts = append(stmts, &ast.AssignStmt{Lhs: []ast.Expr{id}, Tok: token.DEFINE, Rhs: []ast.Expr{fl}})
		fun = id
	}
	inner := &ast.CallExpr{Fun: fun, Args: newArgs, Ellipsis: call.Ellipsis}
	lit := &ast.FuncLit{Type: &ast.FuncType{Params: &ast.FieldList{}}, Body: &ast.BlockStmt{List: []ast.Stmt{&ast.ExprStmt{X: inner}}}}
	stmts = append(stmts, &ast.ExprStmt{X: rw.call("Go", rw.site(n), lit)})
	return &ast.BlockStmt{List: stmts}
}

func (rw *rewriter) selectStmt(c *astutil.Cursor, n *ast.SelectStmt) {
	var decls []ast.Stmt
	var caseArgs []ast.Expr
	var clauses []ast.Stmt
	hasDefault := false
	idx := 0
	for _, cl := range n.Body.List {
		cc := cl.(*ast.CommClause)
		if cc.Comm == nil {
			hasDefault = true
			// the select's default becomes the switch's default (keeps "terminating statement" analysis intact)
			clauses = append(clauses, &ast.CaseClause{List: nil, Body: cc.Body})
			continue
		}
		id := rw.fresh("c")
		var body []ast.Stmt
		switch s := cc.Comm.(type) {
		case *ast.SendStmt:
			decls = append(decls, &ast.AssignStmt{Lhs: []ast.Expr{id}, Tok: token.DEFINE, Rhs: []ast.Expr{rw.call("SendAny", s.Chan, s.Value)}})
		case *ast.ExprStmt:
			u := ast.Unparen(s.X).(*ast.UnaryExpr)
			decls = append(decls, &ast.AssignStmt{Lhs: []ast.Expr{id}, Tok: token.DEFINE, Rhs: []ast.Expr{rw.call("Recv", u.X)}})
		case *ast.AssignStmt:
			u := ast.Unparen(s.Rhs[0]).(*ast.UnaryExpr)
			decls = append(decls, &ast.AssignStmt{Lhs: []ast.Expr{id}, Tok: token.DEFINE, Rhs: []ast.Expr{rw.call("Recv", u.X)}})
			rhs := []ast.Expr{&ast.SelectorExpr{X: id, Sel: ast.NewIdent("V")}}
			if len(s.Lhs) == 2 {
				rhs = append(rhs, &ast.SelectorExpr{X: id, Sel: ast.NewIdent("OK")})
			}
			body = append(body, &ast.AssignStmt{Lhs: s.Lhs, Tok: s.Tok, Rhs: rhs})
			if s.Tok == token.DEFINE {
				// keep "declared and not used" away for blank-only patterns
				for _, l := range s.Lhs {
					if li, ok := l.(*ast.Ident); ok && li.Name != "_" {
						body = append(body, &ast.AssignStmt{Lhs: []ast.Expr{ast.NewIdent("_")}, Tok: token.ASSIGN, Rhs: []ast.Expr{ast.NewIdent(li.Name)}})
					}
				}
			}
		default:
			rw.fail(cc, "unknown comm clause")
		}
		caseArgs = append(caseArgs, id)
		clauses = append(clauses, &ast.CaseClause{List: []ast.Expr{&ast.BasicLit{Kind: token.INT, Value: strconv.Itoa(idx)}}, Body: append(body, cc.Body...)})
		idx++
	}
	def := ast.NewIdent("false")
	if hasDefault {
		def = ast.NewIdent("true")
	} else if len(clauses) > 0 {
		// without a default branch exactly one numbered case fires: spell the last one as `default` so that a select
		// whose every branch returns stays a terminating statement
		clauses[len(clauses)-1].(*ast.CaseClause).List = nil
	}
	args := append([]ast.Expr{rw.site(n), def}, caseArgs...)
	var sw ast.Stmt = &ast.SwitchStmt{Tag: rw.call("Select", args...), Body: &ast.BlockStmt{List: clauses}}
	rw.counts["select"]++
	if lbl, ok := c.Parent().(*ast.LabeledStmt); ok {
		// L: select{} -> the label must stay on a breakable statement; handled when the LabeledStmt is visited
		_ = lbl
		rw.fail(n, "labeled select not supported")
		return
	}
	c.Replace(&ast.BlockStmt{List: append(decls, sw)})
}

func (rw *rewriter) rangeStmt(c *astutil.Cursor, n *ast.RangeStmt) {
	tv, ok := rw.info.Types[n.X]
	if !ok {
		return
	}
	switch t := tv.Type.Underlying().(type) {
	case *types.Chan:
		if _, ok := c.Parent().(*ast.LabeledStmt); ok {
			rw.fail(n, "labeled range over channel not supported")
			return
		}
		chv := rw.fresh("ch")
		okv := rw.fresh("ok")
		var lhs ast.Expr = ast.NewIdent("_")
		tok := token.DEFINE
		if n.Key != nil {
			lhs = n.Key
			tok = n.Tok
		}
		var recv ast.Stmt
		if tok == token.DEFINE {
			recv = &ast.AssignStmt{Lhs: []ast.Expr{lhs, okv}, Tok: token.DEFINE, Rhs: []ast.Expr{rw.call("ChanRecv2", rw.site(n), chv)}}
		} else {
			recv = &ast.BlockStmt{List: []ast.Stmt{
				&ast.DeclStmt{Decl: &ast.GenDecl{Tok: token.VAR, Specs: []ast.Spec{&ast.ValueSpec{Names: []*ast.Ident{okv}, Type: ast.NewIdent("bool")}}}},
			}}
			rw.fail(n, "range over channel with assignment not supported")
			return
		}
		body := append([]ast.Stmt{
			recv,
			&ast.IfStmt{Cond: &ast.UnaryExpr{Op: token.NOT, X: okv}, Body: &ast.BlockStmt{List: []ast.Stmt{&ast.BranchStmt{Tok: token.BREAK}}}},
		}, n.Body.List...)
		c.Replace(&ast.BlockStmt{List: []ast.Stmt{
			&ast.AssignStmt{Lhs: []ast.Expr{chv}, Tok: token.DEFINE, Rhs: []ast.Expr{n.X}},
			&ast.ForStmt{Body: &ast.BlockStmt{List: body}},
		}})
		rw.counts["range-chan"]++
	case *types.Map:
		switch kt := t.Key().Underlying().(type) {
		case *types.Pointer, *types.Chan, *types.Interface:
			_ = kt
			rw.fail(n, "range over map with pointer/interface keys has no deterministic order: "+t.Key().String())
			return
		}
		if _, ok := c.Parent().(*ast.LabeledStmt); ok {
			rw.fail(n, "labeled range over map not supported")
			return
		}
		mv := rw.fresh("m")
		kv := rw.fresh("k")
		var pre []ast.Stmt
		if n.Key != nil {
			if id, ok := n.Key.(*ast.Ident); !ok || id.Name != "_" {
				pre = append(pre, &ast.AssignStmt{Lhs: []ast.Expr{n.Key}, Tok: n.Tok, Rhs: []ast.Expr{kv}})
				if n.Tok == token.DEFINE {
					pre = append(pre, &ast.AssignStmt{Lhs: []ast.Expr{ast.NewIdent("_")}, Tok: token.ASSIGN, Rhs: []ast.Expr{n.Key}})
				}
			}
		}
		// the entry may have been deleted during iteration: Go then skips it
		vv := rw.fresh("v")
		okv := rw.fresh("ok")
		pre = append([]ast.Stmt{
			&ast.AssignStmt{Lhs: []ast.Expr{vv, okv}, Tok: token.DEFINE, Rhs: []ast.Expr{&ast.IndexExpr{X: mv, Index: kv}}},
			&ast.IfStmt{Cond: &ast.UnaryExpr{Op: token.NOT, X: okv}, Body: &ast.BlockStmt{List: []ast.Stmt{&ast.BranchStmt{Tok: token.CONTINUE}}}},
			&ast.AssignStmt{Lhs: []ast.Expr{ast.NewIdent("_")}, Tok: token.ASSIGN, Rhs: []ast.Expr{vv}},
		}, pre...)
		if n.Value != nil {
			if id, ok := n.Value.(*ast.Ident); !ok || id.Name != "_" {
				pre = append(pre, &ast.AssignStmt{Lhs: []ast.Expr{n.Value}, Tok: n.Tok, Rhs: []ast.Expr{vv}})
				if n.Tok == token.DEFINE {
					pre = append(pre, &ast.AssignStmt{Lhs: []ast.Expr{ast.NewIdent("_")}, Tok: token.ASSIGN, Rhs: []ast.Expr{n.Value}})
				}
			}
		}
		loop := &ast.RangeStmt{
			Key: ast.NewIdent("_"), Value: kv, Tok: token.DEFINE,
			X:    rw.call("MapKeys", mv),
			Body: &ast.BlockStmt{List: append(pre, n.Body.List...)},
		}
		c.Replace(&ast.BlockStmt{List: []ast.Stmt{
			&ast.AssignStmt{Lhs: []ast.Expr{mv}, Tok: token.DEFINE, Rhs: []ast.Expr{n.X}},
			loop,
		}})
		rw.counts["range-map"]++
	}
}
